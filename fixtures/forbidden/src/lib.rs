//! Positive examples for the zero-expected rules of the kismet-cache checker.
//! Every function here does something the analysed crate must never do; the
//! checker analyses this crate with the same rules on every run and fails if a
//! rule that is supposed to find nothing in kismet-cache does not fire here.
use std::fs::File;
use std::io::Write;
use std::path::Path;
use std::sync::Mutex;

static LOCK: Mutex<u32> = Mutex::new(0);

pub fn lock_mutex() -> u32 {
    *LOCK.lock().unwrap()
}

pub fn flock_file(f: &File) -> i32 {
    use std::os::fd::AsRawFd;
    unsafe { libc::flock(f.as_raw_fd(), libc::LOCK_EX) }
}

pub fn lock_file(p: &Path) -> std::io::Result<File> {
    std::fs::OpenOptions::new().write(true).create_new(true).open(p)
}

pub fn open_all(ps: &[&Path]) -> std::io::Result<Vec<File>> {
    ps.iter().map(File::open).collect()
}

pub fn sleep_a_bit() {
    std::thread::sleep(std::time::Duration::from_millis(1));
}

pub fn rm_dir(p: &Path) -> std::io::Result<()> {
    std::fs::remove_dir_all(p)
}

pub fn keep_temp(t: tempfile::NamedTempFile) -> bool {
    t.keep().is_ok()
}

pub fn forget_file(f: File) {
    std::mem::forget(f)
}

pub fn open_rw(p: &Path) -> std::io::Result<File> {
    std::fs::OpenOptions::new().read(true).write(true).open(p)
}

pub fn write_in_place(p: &Path) -> std::io::Result<()> {
    let mut f = File::create(p)?;
    f.write_all(b"x")?;
    f.set_len(0)
}

pub fn catch() -> bool {
    std::panic::catch_unwind(|| 1).is_ok()
}

pub fn recursive(n: u32) -> u32 {
    if n == 0 {
        0
    } else {
        1 + recursive(n - 1)
    }
}

pub fn retry_until(a: &Path, b: &Path) {
    while std::fs::rename(a, b).is_err() {
        let _ = std::fs::create_dir_all(b);
    }
}

pub fn nested_listing(p: &Path) -> std::io::Result<usize> {
    let mut n = 0;
    for e in std::fs::read_dir(p)? {
        let e = e?;
        for _ in std::fs::read_dir(e.path())? {
            n += 1;
        }
    }
    Ok(n)
}

pub fn connect() -> bool {
    std::net::TcpStream::connect("127.0.0.1:1").is_ok()
}

pub fn chmod_rw(p: &Path) -> std::io::Result<()> {
    let mut perm = std::fs::metadata(p)?.permissions();
    perm.set_readonly(false);
    std::fs::set_permissions(p, perm)
}

pub fn set_mtime(p: &Path) -> std::io::Result<()> {
    filetime::set_file_mtime(p, filetime::FileTime::now())
}

/// A long-lived type that keeps a descriptor open.
pub struct Holder {
    pub dir: Option<std::fs::ReadDir>,
    pub file: Option<File>,
}

pub fn unwrap_io(p: &Path) -> File {
    File::open(p).unwrap()
}

pub fn drop_result(p: &Path) {
    let _ = std::fs::remove_file(p);
    std::fs::remove_file(p).ok();
}
