use kismet_cache::plain::Cache;
use std::io::Write;

#[test]
fn name_with_separator_escapes() {
    let root = tempfile::tempdir().unwrap();
    let dir = root.path().join("outer").join("cache");
    std::fs::create_dir_all(&dir).unwrap();
    let cache = Cache::new(dir.clone(), 100);
    let mut tmp = tempfile::NamedTempFile::new_in(cache.temp_dir().unwrap()).unwrap();
    tmp.write_all(b"x").unwrap();
    let r = cache.set("a/../../escaped", tmp.path());
    let escaped = root.path().join("outer").join("escaped");
    println!("set -> {:?}; escaped exists: {}", r, escaped.exists());
    assert!(r.is_err(), "set with a separator in the name must fail");
    assert!(!escaped.exists());
}
