use kismet_cache::plain::Cache;
use std::io::Write;

#[test]
fn dot_prefixed_application_file_survives_maintenance() {
    let root = tempfile::tempdir().unwrap();
    let dir = root.path().to_owned();
    let app = dir.join(".appdata");
    std::fs::write(&app, b"application state").unwrap();
    // make it the oldest, never-read file of the directory
    filetime::set_file_times(&app, filetime::FileTime::from_unix_time(1_000, 0), filetime::FileTime::from_unix_time(2_000, 0)).unwrap();
    let cache = Cache::new(dir.clone(), 1);
    for i in 0..6 {
        let mut tmp = tempfile::NamedTempFile::new_in(cache.temp_dir().unwrap()).unwrap();
        tmp.write_all(b"x").unwrap();
        cache.set(&format!("k{}", i), tmp.path()).unwrap();
    }
    println!(".appdata exists after 6 sets: {}", app.exists());
    assert!(app.exists(), "maintenance deleted a dot-prefixed application file");
}
