// kfacts: MIR fact extractor for the kismet-cache static verification harness.
//
// Used as RUSTC_WORKSPACE_WRAPPER under `cargo +nightly check`.  For the crate
// named by KFACTS_CRATE (default `kismet_cache`) it dumps, after analysis, the
// type-checked program as one JSON file (path in KFACTS_OUT): every MIR body
// with resolved callees, types, local traits/impls/ADTs, evaluated constants.
// All other crates are compiled unchanged.
#![feature(rustc_private)]
#![allow(rustc::internal)]

extern crate rustc_abi;
extern crate rustc_data_structures;
extern crate rustc_driver;
extern crate rustc_hir;
extern crate rustc_interface;
extern crate rustc_middle;
extern crate rustc_session;
extern crate rustc_span;

mod json;

use json::J;
use rustc_driver::Compilation;
use rustc_hir::def::DefKind;
use rustc_hir::def_id::{DefId, LocalDefId};
use rustc_middle::mir::{
    self, AggregateKind, BasicBlock, Body, BorrowKind, CastKind, Const as MirConst, ConstValue,
    Operand, Place, ProjectionElem, Rvalue, StatementKind, TerminatorKind, UnwindAction,
};
use rustc_middle::ty::print::with_no_trimmed_paths;
use rustc_middle::ty::{self, GenericArgsRef, Instance, Ty, TyCtxt, TypingEnv};
use rustc_span::Span;
use std::collections::BTreeMap;
use std::collections::HashMap;

struct Cb;

/// Appends the analysis shims (KFACTS_SHIMS: plain-loop renderings of std's iterator drivers, generic over the iterator
/// and the closure) to the root file of the analysed crate, in memory only: they are type-checked and lowered to MIR with
/// the crate, share its type table, and are reported under `__kverif_shims::`.  Nothing on disk is touched.
struct ShimLoader {
    root: std::path::PathBuf,
    shims: String,
}

impl rustc_span::source_map::FileLoader for ShimLoader {
    fn file_exists(&self, path: &std::path::Path) -> bool {
        path.exists()
    }
    fn read_file(&self, path: &std::path::Path) -> std::io::Result<String> {
        let mut text = std::fs::read_to_string(path)?;
        let same = match (std::fs::canonicalize(path), std::fs::canonicalize(&self.root)) {
            (Ok(a), Ok(b)) => a == b,
            _ => false,
        };
        if same {
            text.push_str("\n");
            text.push_str(&self.shims);
        }
        Ok(text)
    }
    fn read_binary_file(&self, path: &std::path::Path) -> std::io::Result<std::sync::Arc<[u8]>> {
        Ok(std::fs::read(path)?.into())
    }
    fn current_directory(&self) -> std::io::Result<std::path::PathBuf> {
        std::env::current_dir()
    }
}

impl rustc_driver::Callbacks for Cb {
    fn config(&mut self, config: &mut rustc_interface::interface::Config) {
        let want = std::env::var("KFACTS_CRATE").unwrap_or_else(|_| "kismet_cache".to_string());
        if config.opts.crate_name.as_deref() != Some(want.as_str()) {
            return;
        }
        if let (Ok(sp), rustc_session::config::Input::File(root)) = (std::env::var("KFACTS_SHIMS"), &config.input) {
            if let Ok(shims) = std::fs::read_to_string(&sp) {
                config.file_loader = Some(Box::new(ShimLoader { root: root.clone(), shims }));
            }
        }
    }

    fn after_analysis<'tcx>(
        &mut self,
        _compiler: &rustc_interface::interface::Compiler,
        tcx: TyCtxt<'tcx>,
    ) -> Compilation {
        let want = std::env::var("KFACTS_CRATE").unwrap_or_else(|_| "kismet_cache".to_string());
        let name = tcx.crate_name(rustc_hir::def_id::LOCAL_CRATE).to_string();
        if name == want {
            if let Ok(out) = std::env::var("KFACTS_OUT") {
                let text = with_no_trimmed_paths!(Dumper::new(tcx).dump());
                let tmp = format!("{}.tmp.{}", out, std::process::id());
                std::fs::write(&tmp, text).expect("kfacts: cannot write fact file");
                std::fs::rename(&tmp, &out).expect("kfacts: cannot move fact file");
            }
        }
        Compilation::Continue
    }
}

fn main() {
    let mut args: Vec<String> = std::env::args().collect();
    // As a workspace wrapper, argv[1] is the path of the real rustc.
    if args.len() > 1 && (args[1].ends_with("rustc") || args[1].contains("/rustc")) {
        args.remove(1);
    }
    let mut cb = Cb;
    rustc_driver::run_compiler(&args, &mut cb);
}

struct Dumper<'tcx> {
    tcx: TyCtxt<'tcx>,
    types: Vec<J>,
    type_ids: HashMap<Ty<'tcx>, usize>,
    consts: BTreeMap<String, J>,
    body_keys: HashMap<DefId, String>,
}

impl<'tcx> Dumper<'tcx> {
    fn new(tcx: TyCtxt<'tcx>) -> Self {
        Dumper { tcx, types: Vec::new(), type_ids: HashMap::new(), consts: BTreeMap::new(), body_keys: HashMap::new() }
    }

    fn path(&self, did: DefId) -> String {
        self.tcx.def_path_str(did)
    }

    fn krate(&self, did: DefId) -> String {
        self.tcx.crate_name(did.krate).to_string()
    }

    fn span_str(&self, span: Span) -> String {
        let sp = if span.from_expansion() { span.source_callsite() } else { span };
        let sm = self.tcx.sess.source_map();
        let lo = sm.lookup_char_pos(sp.lo());
        let file = match &lo.file.name {
            rustc_span::FileName::Real(r) => match r.local_path() {
                Some(p) => p.to_string_lossy().to_string(),
                None => format!("{:?}", r),
            },
            other => format!("{:?}", other),
        };
        format!("{}:{}:{}", file, lo.line, lo.col.0 + 1)
    }

    fn line(&self, span: Span) -> i128 {
        let sp = if span.from_expansion() { span.source_callsite() } else { span };
        self.tcx.sess.source_map().lookup_char_pos(sp.lo()).line as i128
    }

    // ---------------------------------------------------------------- types

    fn ty(&mut self, t: Ty<'tcx>) -> usize {
        if let Some(&i) = self.type_ids.get(&t) {
            return i;
        }
        let id = self.types.len();
        self.type_ids.insert(t, id);
        self.types.push(J::Null);
        let mut o = J::obj();
        o.set("s", J::str(&format!("{}", t)));
        match t.kind() {
            ty::Bool => o.set("k", J::str("bool")),
            ty::Char => o.set("k", J::str("char")),
            ty::Int(i) => {
                o.set("k", J::str("int"));
                o.set("name", J::str(i.name_str()));
            }
            ty::Uint(u) => {
                o.set("k", J::str("uint"));
                o.set("name", J::str(u.name_str()));
            }
            ty::Float(_) => o.set("k", J::str("float")),
            ty::Str => o.set("k", J::str("str")),
            ty::Never => o.set("k", J::str("never")),
            ty::Adt(def, args) => {
                o.set("k", J::str("adt"));
                o.set("adt", J::str(&self.path(def.did())));
                o.set("krate", J::str(&self.krate(def.did())));
                o.set("local", J::Bool(def.did().is_local()));
                o.set("is_enum", J::Bool(def.is_enum()));
                o.set("is_box", J::Bool(def.is_box()));
                let mut targs = Vec::new();
                for a in args.iter() {
                    if let Some(at) = a.as_type() {
                        targs.push(J::Int(self.ty(at) as i128));
                    }
                }
                o.set("targs", J::Arr(targs));
                // Variants/fields: for every enum, and for local structs.
                if def.is_enum() || def.did().is_local() {
                    let mut vs = Vec::new();
                    for (vi, v) in def.variants().iter_enumerated() {
                        let mut vo = J::obj();
                        vo.set("name", J::str(v.name.as_str()));
                        if def.is_enum() {
                            let d = def.discriminant_for_variant(self.tcx, vi);
                            vo.set("discr", J::BigUint(d.val));
                        }
                        let mut fs = Vec::new();
                        // Only expand field types for local ADTs and for the
                        // small std enums whose payloads we interpret.
                        let expand = def.did().is_local() || v.fields.len() <= 2;
                        for f in v.fields.iter() {
                            let mut fo = J::obj();
                            fo.set("name", J::str(f.name.as_str()));
                            if expand {
                                let fty = f.ty(self.tcx, args);
                                let fid = self.ty(fty);
                                fo.set("ty", J::Int(fid as i128));
                            }
                            fo.set("public", J::Bool(f.vis.is_public()));
                            fs.push(fo);
                        }
                        vo.set("fields", J::Arr(fs));
                        vs.push(vo);
                    }
                    o.set("variants", J::Arr(vs));
                }
            }
            ty::Ref(_, inner, m) => {
                o.set("k", J::str("ref"));
                o.set("to", J::Int(self.ty(*inner) as i128));
                o.set("mut", J::Bool(m.is_mut()));
            }
            ty::RawPtr(inner, m) => {
                o.set("k", J::str("rawptr"));
                o.set("to", J::Int(self.ty(*inner) as i128));
                o.set("mut", J::Bool(m.is_mut()));
            }
            ty::Tuple(elems) => {
                o.set("k", J::str("tuple"));
                let mut es = Vec::new();
                for e in elems.iter() {
                    es.push(J::Int(self.ty(e) as i128));
                }
                o.set("elems", J::Arr(es));
            }
            ty::Slice(e) => {
                o.set("k", J::str("slice"));
                o.set("elem", J::Int(self.ty(*e) as i128));
            }
            ty::Array(e, _) => {
                o.set("k", J::str("array"));
                o.set("elem", J::Int(self.ty(*e) as i128));
            }
            ty::FnDef(did, args) => {
                o.set("k", J::str("fndef"));
                o.set("def", J::str(&self.path(*did)));
                o.set("local", J::Bool(did.is_local()));
                if did.is_local() {
                    o.set("key", J::str(&self.body_key(*did)));
                }
                let _ = args;
            }
            ty::FnPtr(..) => o.set("k", J::str("fnptr")),
            ty::Closure(did, args) => {
                o.set("k", J::str("closure"));
                o.set("def", J::str(&self.path(*did)));
                o.set("key", J::str(&self.body_key(*did)));
                let up = args.as_closure().tupled_upvars_ty();
                o.set("upvars", J::Int(self.ty(up) as i128));
            }
            ty::Dynamic(preds, ..) => {
                o.set("k", J::str("dyn"));
                if let Some(p) = preds.principal_def_id() {
                    o.set("trait", J::str(&self.path(p)));
                    o.set("local", J::Bool(p.is_local()));
                }
            }
            ty::Param(p) => {
                o.set("k", J::str("param"));
                o.set("name", J::str(p.name.as_str()));
            }
            ty::Alias(..) => o.set("k", J::str("alias")),
            _ => o.set("k", J::str("other")),
        }
        self.types[id] = o;
        id
    }

    // ----------------------------------------------------------- body keys

    fn body_key(&mut self, did: DefId) -> String {
        if let Some(k) = self.body_keys.get(&did) {
            return k.clone();
        }
        let k = self.tcx.def_path(did).to_string_no_crate_verbose();
        self.body_keys.insert(did, k.clone());
        k
    }

    // Human-facing name: `<Self as Trait>::m`, `Self::m`, or the def path.
    fn pretty(&self, did: DefId) -> String {
        self.path(did)
    }

    // ------------------------------------------------------------- consts

    fn bytes_of_alloc(&self, alloc_id: mir::interpret::AllocId, offset: u64, len: u64) -> Option<Vec<u8>> {
        match self.tcx.global_alloc(alloc_id) {
            mir::interpret::GlobalAlloc::Memory(a) => {
                let a = a.inner();
                let total = a.len() as u64;
                if offset + len > total {
                    return None;
                }
                Some(
                    a.inspect_with_uninit_and_ptr_outside_interpreter(offset as usize..(offset + len) as usize)
                        .to_vec(),
                )
            }
            _ => None,
        }
    }

    fn const_value(&mut self, cv: ConstValue, t: Ty<'tcx>, env_did: DefId) -> J {
        let mut o = J::obj();
        match cv {
            ConstValue::Scalar(s) => match s {
                mir::interpret::Scalar::Int(i) => {
                    let size = i.size();
                    let bits = i.to_bits(size);
                    o.set("bits", J::Int(bits as i128));
                    o.set("size", J::Int(size.bytes() as i128));
                    if let ty::Int(_) = t.kind() {
                        let sv = size.sign_extend(bits);
                        o.set("int", J::Int(sv));
                    } else if bits <= i128::MAX as u128 {
                        o.set("int", J::Int(bits as i128));
                    } else {
                        o.set("int", J::BigUint(bits));
                    }
                }
                mir::interpret::Scalar::Ptr(p, _) => {
                    o.set("ptr", J::Bool(true));
                    // A pointer to a global allocation: try to fetch its bytes
                    // when the pointee type has a known size.
                    let (prov, off) = p.into_raw_parts();
                    let alloc_id = prov.alloc_id();
                    if let ty::Ref(_, inner, _) = t.kind() {
                        let env = TypingEnv::post_analysis(self.tcx, env_did);
                        if let Ok(layout) = self.tcx.layout_of(env.as_query_input(*inner)) {
                            if layout.is_sized() {
                                if let Some(b) = self.bytes_of_alloc(alloc_id, off.bytes(), layout.size.bytes()) {
                                    o.set("pointee_bytes", J::str(&hex(&b)));
                                }
                            }
                        }
                    }
                }
            },
            ConstValue::ZeroSized => {
                o.set("zst", J::Bool(true));
            }
            ConstValue::Slice { alloc_id, meta } => {
                if let Some(b) = self.bytes_of_alloc(alloc_id, 0, meta) {
                    let is_str = matches!(t.kind(), ty::Ref(_, inner, _) if inner.is_str());
                    if is_str {
                        o.set("str", J::str(&String::from_utf8_lossy(&b)));
                    }
                    o.set("slice_bytes", J::str(&hex(&b)));
                }
            }
            ConstValue::Indirect { alloc_id, offset } => {
                let env = TypingEnv::post_analysis(self.tcx, env_did);
                if let Ok(layout) = self.tcx.layout_of(env.as_query_input(t)) {
                    if layout.is_sized() {
                        if let Some(b) = self.bytes_of_alloc(alloc_id, offset.bytes(), layout.size.bytes()) {
                            o.set("bytes", J::str(&hex(&b)));
                        }
                    }
                }
            }
        }
        o
    }

    fn mir_const(&mut self, c: &MirConst<'tcx>, body_did: DefId) -> J {
        let mut o = J::obj();
        o.set("k", J::str("const"));
        let t = c.ty();
        o.set("ty", J::Int(self.ty(t) as i128));
        if let ty::FnDef(did, args) = t.kind() {
            o.set("fn", self.callee_info(*did, args, body_did));
            return o;
        }
        match c {
            MirConst::Val(cv, t) => {
                o.set("val", self.const_value(*cv, *t, body_did));
            }
            MirConst::Unevaluated(u, t) => {
                if let Some(p) = u.promoted {
                    o.set("promoted", J::Int(p.as_usize() as i128));
                    o.set("promoted_of", J::str(&self.body_key(u.def)));
                } else {
                    let name = self.path(u.def);
                    o.set("named", J::str(&name));
                    o.set("named_local", J::Bool(u.def.is_local()));
                    let env = TypingEnv::post_analysis(self.tcx, body_did);
                    if let Ok(cv) = self.tcx.const_eval_resolve(env, *u, rustc_span::DUMMY_SP) {
                        let v = self.const_value(cv, *t, body_did);
                        o.set("val", v.clone());
                        let mut entry = J::obj();
                        entry.set("ty", J::str(&format!("{}", t)));
                        entry.set("val", v);
                        self.consts.insert(name, entry);
                    }
                }
            }
            MirConst::Ty(_, ct) => {
                o.set("tyconst", J::str(&format!("{:?}", ct)));
            }
        }
        o
    }

    // ------------------------------------------------------------- callee

    fn callee_info(&mut self, did: DefId, args: GenericArgsRef<'tcx>, body_did: DefId) -> J {
        let tcx = self.tcx;
        let mut o = J::obj();
        o.set("path", J::str(&self.path(did)));
        o.set("krate", J::str(&self.krate(did)));
        o.set("local", J::Bool(did.is_local()));
        o.set("name", J::str(tcx.item_name(did).as_str()));
        let mut ga = Vec::new();
        let mut gat = Vec::new();
        for a in args.iter() {
            ga.push(J::str(&format!("{}", a)));
            if let Some(t) = a.as_type() {
                gat.push(J::Int(self.ty(t) as i128));
            }
        }
        o.set("gargs", J::Arr(ga));
        o.set("gargs_ty", J::Arr(gat));
        let mut gp = Vec::new();
        let mut gall = Vec::new();
        for (ident, actual) in ty::GenericArgs::identity_for_item(tcx, did).iter().zip(args.iter()) {
            gp.push(J::str(&format!("{}", ident)));
            match actual.as_type() {
                Some(t) => gall.push(J::Int(self.ty(t) as i128)),
                None => gall.push(J::Null),
            }
        }
        o.set("gparams", J::Arr(gp));
        o.set("gargs_all", J::Arr(gall));
        if did.is_local() {
            o.set("key", J::str(&self.body_key(did)));
        }
        if matches!(tcx.def_kind(did), DefKind::Fn | DefKind::AssocFn) {
            let sig = tcx.fn_sig(did).instantiate(tcx, args).skip_norm_wip();
            o.set("unsafe", J::Bool(!sig.safety().is_safe()));
        }
        if let Some(tr) = tcx.trait_of_assoc(did) {
            o.set("trait", J::str(&self.path(tr)));
            o.set("trait_local", J::Bool(tr.is_local()));
            if let Some(st) = args.get(0).and_then(|a| a.as_type()) {
                o.set("self_ty", J::Int(self.ty(st) as i128));
            }
        } else if let Some(imp) = tcx.impl_of_assoc(did) {
            let st = tcx.type_of(imp).instantiate(tcx, args).skip_norm_wip();
            o.set("impl_self_ty", J::Int(self.ty(st) as i128));
        }
        // Resolution.
        let env = TypingEnv::post_analysis(tcx, body_did);
        let mut r = J::obj();
        match Instance::try_resolve(tcx, env, did, args) {
            Ok(Some(inst)) => {
                let rdid = inst.def_id();
                let kind = match inst.def {
                    ty::InstanceKind::Item(_) => "item",
                    ty::InstanceKind::Virtual(..) => "virtual",
                    ty::InstanceKind::Intrinsic(_) => "intrinsic",
                    ty::InstanceKind::ClosureOnceShim { .. } => "closure_once_shim",
                    ty::InstanceKind::FnPtrShim(..) => "fnptr_shim",
                    ty::InstanceKind::ReifyShim(..) => "reify_shim",
                    ty::InstanceKind::DropGlue(..) => "drop_glue",
                    ty::InstanceKind::CloneShim(..) => "clone_shim",
                    ty::InstanceKind::VTableShim(..) => "vtable_shim",
                    _ => "other_shim",
                };
                r.set("kind", J::str(kind));
                r.set("path", J::str(&self.path(rdid)));
                r.set("krate", J::str(&self.krate(rdid)));
                r.set("local", J::Bool(rdid.is_local()));
                if rdid.is_local() && tcx.is_mir_available(rdid) {
                    r.set("key", J::str(&self.body_key(rdid)));
                }
                if let DefKind::Closure = tcx.def_kind(rdid) {
                    r.set("closure", J::Bool(true));
                }
            }
            Ok(None) => r.set("kind", J::str("unresolved")),
            Err(_) => r.set("kind", J::str("error")),
        }
        o.set("resolved", r);
        o
    }

    // -------------------------------------------------------------- places

    fn place(&mut self, p: &Place<'tcx>) -> J {
        let mut o = J::obj();
        o.set("l", J::Int(p.local.as_usize() as i128));
        let mut pr = Vec::new();
        for e in p.projection.iter() {
            match e {
                ProjectionElem::Deref => pr.push(J::str("deref")),
                ProjectionElem::Field(f, t) => {
                    pr.push(J::Arr(vec![J::str("f"), J::Int(f.as_usize() as i128), J::Int(self.ty(t) as i128)]))
                }
                ProjectionElem::Downcast(name, v) => pr.push(J::Arr(vec![
                    J::str("dc"),
                    J::Int(v.as_usize() as i128),
                    J::str(&name.map(|s| s.to_string()).unwrap_or_default()),
                ])),
                ProjectionElem::Index(l) => pr.push(J::Arr(vec![J::str("idx"), J::Int(l.as_usize() as i128)])),
                ProjectionElem::ConstantIndex { offset, from_end, .. } => {
                    pr.push(J::Arr(vec![J::str("cidx"), J::Int(offset as i128), J::Bool(from_end)]))
                }
                ProjectionElem::Subslice { from, to, from_end } => pr.push(J::Arr(vec![
                    J::str("sub"),
                    J::Int(from as i128),
                    J::Int(to as i128),
                    J::Bool(from_end),
                ])),
                _ => pr.push(J::str("opaque")),
            }
        }
        o.set("p", J::Arr(pr));
        o
    }

    fn operand(&mut self, op: &Operand<'tcx>, body_did: DefId) -> J {
        match op {
            Operand::Copy(p) => {
                let mut o = J::obj();
                o.set("k", J::str("copy"));
                o.set("pl", self.place(p));
                o
            }
            Operand::Move(p) => {
                let mut o = J::obj();
                o.set("k", J::str("move"));
                o.set("pl", self.place(p));
                o
            }
            Operand::Constant(c) => self.mir_const(&c.const_, body_did),
            #[allow(unreachable_patterns)]
            _ => {
                let mut o = J::obj();
                o.set("k", J::str("opaque"));
                o
            }
        }
    }

    fn rvalue(&mut self, rv: &Rvalue<'tcx>, body: &Body<'tcx>, body_did: DefId) -> J {
        let mut o = J::obj();
        match rv {
            Rvalue::Use(op, ..) => {
                o.set("k", J::str("use"));
                o.set("op", self.operand(op, body_did));
            }
            Rvalue::Ref(_, bk, p) => {
                o.set("k", J::str("ref"));
                o.set("mut", J::Bool(matches!(bk, BorrowKind::Mut { .. })));
                o.set("pl", self.place(p));
            }
            Rvalue::RawPtr(_, p) => {
                o.set("k", J::str("rawptr"));
                o.set("pl", self.place(p));
            }
            Rvalue::CopyForDeref(p) => {
                o.set("k", J::str("use"));
                let mut oo = J::obj();
                oo.set("k", J::str("copy"));
                oo.set("pl", self.place(p));
                o.set("op", oo);
            }
            Rvalue::Cast(ck, op, t) => {
                o.set("k", J::str("cast"));
                let ckn = match ck {
                    CastKind::IntToInt => "int_to_int".to_string(),
                    CastKind::PointerCoercion(pc, _) => format!("coerce:{:?}", pc),
                    CastKind::Transmute => "transmute".to_string(),
                    CastKind::PtrToPtr => "ptr_to_ptr".to_string(),
                    other => format!("{:?}", other),
                };
                o.set("cast", J::str(&ckn));
                o.set("op", self.operand(op, body_did));
                o.set("ty", J::Int(self.ty(*t) as i128));
            }
            Rvalue::BinaryOp(bop, ops) => {
                o.set("k", J::str("binop"));
                o.set("op", J::str(&format!("{:?}", bop)));
                o.set("a", self.operand(&ops.0, body_did));
                o.set("b", self.operand(&ops.1, body_did));
            }
            Rvalue::UnaryOp(uop, op) => {
                o.set("k", J::str("unop"));
                o.set("op", J::str(&format!("{:?}", uop)));
                o.set("a", self.operand(op, body_did));
            }
            Rvalue::Discriminant(p) => {
                o.set("k", J::str("discr"));
                o.set("pl", self.place(p));
                let pt = p.ty(&body.local_decls, self.tcx).ty;
                o.set("of_ty", J::Int(self.ty(pt) as i128));
            }
            Rvalue::Aggregate(ak, ops) => {
                o.set("k", J::str("agg"));
                match &**ak {
                    AggregateKind::Tuple => o.set("agg", J::str("tuple")),
                    AggregateKind::Array(_) => o.set("agg", J::str("array")),
                    AggregateKind::Adt(did, v, _, _, union_field) => {
                        o.set("agg", J::str("adt"));
                        o.set("adt", J::str(&self.path(*did)));
                        o.set("variant", J::Int(v.as_usize() as i128));
                        let adt = self.tcx.adt_def(*did);
                        o.set("variant_name", J::str(adt.variant(*v).name.as_str()));
                        o.set("is_enum", J::Bool(adt.is_enum()));
                        if union_field.is_some() {
                            o.set("union", J::Bool(true));
                        }
                    }
                    AggregateKind::Closure(did, _) => {
                        o.set("agg", J::str("closure"));
                        o.set("key", J::str(&self.body_key(*did)));
                    }
                    AggregateKind::RawPtr(..) => o.set("agg", J::str("rawptr")),
                    _ => o.set("agg", J::str("other")),
                }
                let mut os = Vec::new();
                for op in ops.iter() {
                    os.push(self.operand(op, body_did));
                }
                o.set("ops", J::Arr(os));
            }
            Rvalue::ThreadLocalRef(did) => {
                o.set("k", J::str("tlref"));
                o.set("static", J::str(&self.path(*did)));
            }
            Rvalue::Repeat(op, _) => {
                o.set("k", J::str("repeat"));
                o.set("op", self.operand(op, body_did));
            }
            _ => {
                o.set("k", J::str("opaque"));
                o.set("dbg", J::str(&format!("{:?}", rv)));
            }
        }
        o
    }

    fn unwind(&self, u: &UnwindAction) -> J {
        match u {
            UnwindAction::Cleanup(bb) => J::Int(bb.as_usize() as i128),
            UnwindAction::Continue => J::str("continue"),
            UnwindAction::Unreachable => J::str("unreachable"),
            UnwindAction::Terminate(_) => J::str("terminate"),
        }
    }

    fn bb(&self, b: BasicBlock) -> J {
        J::Int(b.as_usize() as i128)
    }

    fn body(&mut self, body: &Body<'tcx>, body_did: DefId) -> J {
        let tcx = self.tcx;
        let mut o = J::obj();
        o.set("arg_count", J::Int(body.arg_count as i128));
        o.set("span", J::str(&self.span_str(body.span)));
        let mut locals = Vec::new();
        for (_l, d) in body.local_decls.iter_enumerated() {
            let mut lo = J::obj();
            lo.set("ty", J::Int(self.ty(d.ty) as i128));
            lo.set("mut", J::Bool(d.mutability.is_mut()));
            locals.push(lo);
        }
        // debug names
        for vdi in body.var_debug_info.iter() {
            if let mir::VarDebugInfoContents::Place(p) = &vdi.value {
                if p.projection.is_empty() {
                    if let Some(J::Obj(m)) = locals.get_mut(p.local.as_usize()) {
                        m.push(("name".to_string(), J::str(vdi.name.as_str())));
                    }
                } else {
                    // captured upvar: record as debug info on the body
                }
            }
        }
        o.set("locals", J::Arr(locals));
        let mut upvar_names = Vec::new();
        for vdi in body.var_debug_info.iter() {
            if let mir::VarDebugInfoContents::Place(p) = &vdi.value {
                if !p.projection.is_empty() {
                    let mut u = J::obj();
                    u.set("name", J::str(vdi.name.as_str()));
                    u.set("pl", self.place(p));
                    upvar_names.push(u);
                }
            }
        }
        o.set("debug_places", J::Arr(upvar_names));

        let mut blocks = Vec::new();
        for (_bb, data) in body.basic_blocks.iter_enumerated() {
            let mut bo = J::obj();
            bo.set("cleanup", J::Bool(data.is_cleanup));
            let mut stmts = Vec::new();
            for st in data.statements.iter() {
                let mut so = J::obj();
                match &st.kind {
                    StatementKind::Assign(b) => {
                        let (p, rv) = &**b;
                        so.set("k", J::str("assign"));
                        so.set("pl", self.place(p));
                        so.set("rv", self.rvalue(rv, body, body_did));
                    }
                    StatementKind::SetDiscriminant { place, variant_index } => {
                        so.set("k", J::str("setdiscr"));
                        so.set("pl", self.place(place));
                        so.set("variant", J::Int(variant_index.as_usize() as i128));
                    }
                    StatementKind::StorageLive(l) => {
                        so.set("k", J::str("live"));
                        so.set("l", J::Int(l.as_usize() as i128));
                    }
                    StatementKind::StorageDead(l) => {
                        so.set("k", J::str("dead"));
                        so.set("l", J::Int(l.as_usize() as i128));
                    }
                    _ => continue,
                }
                so.set("line", J::Int(self.line(st.source_info.span)));
                stmts.push(so);
            }
            bo.set("stmts", J::Arr(stmts));
            let term = data.terminator();
            let mut to = J::obj();
            to.set("span", J::str(&self.span_str(term.source_info.span)));
            to.set("from_expansion", J::Bool(term.source_info.span.from_expansion()));
            match &term.kind {
                TerminatorKind::Goto { target } => {
                    to.set("k", J::str("goto"));
                    to.set("target", self.bb(*target));
                }
                TerminatorKind::SwitchInt { discr, targets } => {
                    to.set("k", J::str("switch"));
                    to.set("discr", self.operand(discr, body_did));
                    let dt = discr.ty(&body.local_decls, tcx);
                    to.set("discr_ty", J::Int(self.ty(dt) as i128));
                    let mut ts = Vec::new();
                    for (v, t) in targets.iter() {
                        ts.push(J::Arr(vec![J::BigUint(v), self.bb(t)]));
                    }
                    to.set("targets", J::Arr(ts));
                    to.set("otherwise", self.bb(targets.otherwise()));
                }
                TerminatorKind::UnwindResume => to.set("k", J::str("resume")),
                TerminatorKind::UnwindTerminate(_) => to.set("k", J::str("abort")),
                TerminatorKind::Return => to.set("k", J::str("return")),
                TerminatorKind::Unreachable => to.set("k", J::str("unreachable")),
                TerminatorKind::Drop { place, target, unwind, .. } => {
                    to.set("k", J::str("drop"));
                    to.set("pl", self.place(place));
                    let pt = place.ty(&body.local_decls, tcx).ty;
                    to.set("ty", J::Int(self.ty(pt) as i128));
                    to.set("target", self.bb(*target));
                    to.set("unwind", self.unwind(unwind));
                }
                TerminatorKind::Call { func, args, destination, target, unwind, fn_span, .. } => {
                    to.set("k", J::str("call"));
                    to.set("func", self.operand(func, body_did));
                    let mut as_ = Vec::new();
                    for a in args.iter() {
                        as_.push(self.operand(&a.node, body_did));
                    }
                    to.set("args", J::Arr(as_));
                    let mut ats = Vec::new();
                    for a in args.iter() {
                        let at = a.node.ty(&body.local_decls, tcx);
                        ats.push(J::Int(self.ty(at) as i128));
                    }
                    to.set("arg_tys", J::Arr(ats));
                    to.set("dest", self.place(destination));
                    let dt = destination.ty(&body.local_decls, tcx).ty;
                    to.set("dest_ty", J::Int(self.ty(dt) as i128));
                    to.set("target", target.map(|t| self.bb(t)).unwrap_or(J::Null));
                    to.set("unwind", self.unwind(unwind));
                    to.set("fn_span", J::str(&self.span_str(*fn_span)));
                    if term.source_info.span.from_expansion() {
                        let cs = term.source_info.span.source_callsite();
                        if let Ok(snip) = tcx.sess.source_map().span_to_snippet(cs) {
                            let s: String = snip.chars().take(400).collect();
                            to.set("macro_snippet", J::str(&s));
                        }
                        if let Some(mk) = term.source_info.span.macro_backtrace().last() {
                            to.set("macro", J::str(&mk.kind.descr()));
                        }
                    }
                }
                TerminatorKind::Assert { cond, expected, target, unwind, msg } => {
                    to.set("k", J::str("assert"));
                    to.set("cond", self.operand(cond, body_did));
                    to.set("expected", J::Bool(*expected));
                    to.set("target", self.bb(*target));
                    to.set("unwind", self.unwind(unwind));
                    let kind = format!("{:?}", msg);
                    let kind: String = kind.chars().take(60).collect();
                    to.set("msg", J::str(&kind));
                }
                TerminatorKind::FalseEdge { real_target, .. } => {
                    to.set("k", J::str("goto"));
                    to.set("target", self.bb(*real_target));
                }
                TerminatorKind::FalseUnwind { real_target, .. } => {
                    to.set("k", J::str("goto"));
                    to.set("target", self.bb(*real_target));
                }
                other => {
                    to.set("k", J::str("other"));
                    to.set("dbg", J::str(&format!("{:?}", other).chars().take(80).collect::<String>()));
                }
            }
            bo.set("term", to);
            blocks.push(bo);
        }
        o.set("blocks", J::Arr(blocks));
        o
    }

    // ---------------------------------------------------------------- dump

    fn dump(mut self) -> String {
        let tcx = self.tcx;
        let mut root = J::obj();
        root.set("nonce", J::str(&std::env::var("KFACTS_NONCE").unwrap_or_default()));
        root.set("crate", J::str(tcx.crate_name(rustc_hir::def_id::LOCAL_CRATE).as_str()));
        root.set("cfg_test", J::Bool(tcx.sess.opts.test));
        root.set("rustc", J::str(option_env!("CFG_VERSION").unwrap_or("nightly")));
        let cfgs: Vec<J> = tcx
            .sess
            .config
            .iter()
            .filter(|(k, _)| matches!(k.as_str(), "test" | "target_family" | "target_os" | "debug_assertions" | "target_pointer_width"))
            .map(|(k, v)| J::str(&format!("{}={}", k, v.map(|s| s.to_string()).unwrap_or_default())))
            .collect();
        root.set("cfg", J::Arr(cfgs));

        let ev = tcx.effective_visibilities(());
        let mut bodies = J::obj();
        let keys: Vec<LocalDefId> = tcx.mir_keys(()).iter().copied().collect();
        for ldid in keys {
            let did = ldid.to_def_id();
            let dk = tcx.def_kind(did);
            let is_fn = matches!(dk, DefKind::Fn | DefKind::AssocFn | DefKind::Closure);
            if !is_fn {
                continue;
            }
            let key = self.body_key(did);
            let body = tcx.optimized_mir(did);
            let mut bo = self.body(body, did);
            bo.set("path", J::str(&self.pretty(did)));
            let gens: Vec<J> = ty::GenericArgs::identity_for_item(tcx, did).iter().map(|a| J::str(&format!("{}", a))).collect();
            bo.set("generics", J::Arr(gens));
            bo.set("def_kind", J::str(&format!("{:?}", dk)));
            bo.set("name", J::str(&tcx.opt_item_name(did).map(|s| s.to_string()).unwrap_or_default()));
            let reachable = matches!(dk, DefKind::Fn | DefKind::AssocFn) && ev.is_reachable(ldid);
            bo.set("public", J::Bool(reachable));
            if matches!(dk, DefKind::Fn | DefKind::AssocFn) {
                let sig = tcx.fn_sig(did).instantiate_identity().skip_norm_wip();
                bo.set("unsafe", J::Bool(!sig.safety().is_safe()));
                bo.set("const_fn", J::Bool(tcx.is_const_fn(did)));
            }
            // parent item (for closures and nested fns)
            let parent = tcx.parent(did);
            if matches!(tcx.def_kind(parent), DefKind::Fn | DefKind::AssocFn | DefKind::Closure) {
                bo.set("parent", J::str(&self.body_key(parent)));
            }
            if let Some(tr) = tcx.trait_of_assoc(did) {
                bo.set("in_trait", J::str(&self.path(tr)));
            }
            if let Some(imp) = tcx.impl_of_assoc(did) {
                let st = tcx.type_of(imp).instantiate_identity().skip_norm_wip();
                bo.set("impl_self_ty", J::Int(self.ty(st) as i128));
                if let Some(trf) = tcx.impl_opt_trait_ref(imp) {
                    let trf = trf.instantiate_identity().skip_norm_wip();
                    bo.set("impl_trait", J::str(&self.path(trf.def_id)));
                    bo.set("impl_trait_local", J::Bool(trf.def_id.is_local()));
                }
            }
            // promoted bodies
            let proms = tcx.promoted_mir(did);
            let mut ps = Vec::new();
            for p in proms.iter() {
                ps.push(self.body(p, did));
            }
            bo.set("promoted", J::Arr(ps));
            bodies.set(&key, bo);
        }
        root.set("bodies", bodies);

        // Local traits and their impls.
        let mut traits = J::obj();
        for tr in tcx.all_traits_including_private() {
            if !tr.is_local() {
                continue;
            }
            let mut to = J::obj();
            let mut ms = Vec::new();
            for it in tcx.associated_items(tr).in_definition_order() {
                if !matches!(it.kind, ty::AssocKind::Fn { .. }) {
                    continue;
                }
                let mut mo = J::obj();
                mo.set("name", J::str(it.name().as_str()));
                let has_default = it.defaultness(tcx).has_value();
                mo.set("provided", J::Bool(has_default));
                if has_default {
                    mo.set("key", J::str(&self.body_key(it.def_id)));
                }
                mo.set("path", J::str(&self.path(it.def_id)));
                ms.push(mo);
            }
            to.set("methods", J::Arr(ms));
            let mut impls = Vec::new();
            for imp in tcx.all_impls(tr) {
                if !imp.is_local() {
                    continue;
                }
                let mut io = J::obj();
                let st = tcx.type_of(imp).instantiate_identity().skip_norm_wip();
                io.set("self_ty", J::Int(self.ty(st) as i128));
                io.set("self_ty_s", J::str(&format!("{}", st)));
                io.set("span", J::str(&self.span_str(tcx.def_span(imp))));
                let mut mm = J::obj();
                for it in tcx.associated_items(imp).in_definition_order() {
                    if !matches!(it.kind, ty::AssocKind::Fn { .. }) {
                        continue;
                    }
                    mm.set(it.name().as_str(), J::str(&self.body_key(it.def_id)));
                }
                io.set("methods", mm);
                impls.push(io);
            }
            to.set("impls", J::Arr(impls));
            to.set("public", J::Bool(tr.as_local().map(|l| ev.is_reachable(l)).unwrap_or(false)));
            traits.set(&self.path(tr), to);
        }
        root.set("traits", traits);

        // Local ADTs, statics, consts.
        let mut adts = J::obj();
        let mut statics = Vec::new();
        for ldid in tcx.hir_crate_items(()).definitions() {
            let did = ldid.to_def_id();
            match tcx.def_kind(did) {
                DefKind::Struct | DefKind::Enum | DefKind::Union => {
                    let t = tcx.type_of(did).instantiate_identity().skip_norm_wip();
                    let id = self.ty(t);
                    let mut ao = J::obj();
                    ao.set("ty", J::Int(id as i128));
                    ao.set("public", J::Bool(ev.is_reachable(ldid)));
                    ao.set("span", J::str(&self.span_str(tcx.def_span(did))));
                    adts.set(&self.path(did), ao);
                }
                DefKind::Static { .. } => {
                    let t = tcx.type_of(did).instantiate_identity().skip_norm_wip();
                    let mut so = J::obj();
                    so.set("path", J::str(&self.path(did)));
                    so.set("ty", J::Int(self.ty(t) as i128));
                    so.set("thread_local", J::Bool(tcx.is_thread_local_static(did)));
                    so.set("span", J::str(&self.span_str(tcx.def_span(did))));
                    statics.push(so);
                }
                DefKind::Const { .. } | DefKind::AssocConst { .. } => {
                    if tcx.generics_of(did).is_empty() {
                        let t = tcx.type_of(did).instantiate_identity().skip_norm_wip();
                        if let Ok(cv) = tcx.const_eval_poly(did) {
                            let v = self.const_value(cv, t, did);
                            let mut entry = J::obj();
                            entry.set("ty", J::str(&format!("{}", t)));
                            entry.set("val", v);
                            entry.set("public", J::Bool(ev.is_reachable(ldid)));
                            self.consts.insert(self.path(did), entry);
                        }
                    }
                }
                _ => {}
            }
        }
        root.set("adts", adts);
        root.set("statics", J::Arr(statics));
        let mut cs = J::obj();
        let consts = std::mem::take(&mut self.consts);
        for (k, v) in consts {
            cs.set(&k, v);
        }
        root.set("consts", cs);
        root.set("types", J::Arr(std::mem::take(&mut self.types)));
        root.to_string()
    }
}

fn hex(b: &[u8]) -> String {
    let mut s = String::with_capacity(b.len() * 2);
    for x in b {
        s.push_str(&format!("{:02x}", x));
    }
    s
}
