// Minimal JSON value + writer (the driver has no dependencies).
#[derive(Clone)]
pub enum J {
    Null,
    Bool(bool),
    Int(i128),
    BigUint(u128),
    Str(String),
    Arr(Vec<J>),
    Obj(Vec<(String, J)>),
}

impl J {
    pub fn obj() -> J {
        J::Obj(Vec::new())
    }
    pub fn str(s: &str) -> J {
        J::Str(s.to_string())
    }
    pub fn set(&mut self, k: &str, v: J) {
        if let J::Obj(m) = self {
            m.push((k.to_string(), v));
        }
    }
    pub fn to_string(&self) -> String {
        let mut out = String::new();
        self.write(&mut out);
        out
    }
    fn write(&self, out: &mut String) {
        match self {
            J::Null => out.push_str("null"),
            J::Bool(b) => out.push_str(if *b { "true" } else { "false" }),
            J::Int(i) => out.push_str(&i.to_string()),
            J::BigUint(u) => out.push_str(&u.to_string()),
            J::Str(s) => write_str(s, out),
            J::Arr(a) => {
                out.push('[');
                for (i, v) in a.iter().enumerate() {
                    if i > 0 {
                        out.push(',');
                    }
                    v.write(out);
                }
                out.push(']');
            }
            J::Obj(m) => {
                out.push('{');
                for (i, (k, v)) in m.iter().enumerate() {
                    if i > 0 {
                        out.push(',');
                    }
                    write_str(k, out);
                    out.push(':');
                    v.write(out);
                }
                out.push('}');
            }
        }
    }
}

fn write_str(s: &str, out: &mut String) {
    out.push('"');
    for c in s.chars() {
        match c {
            '"' => out.push_str("\\\""),
            '\\' => out.push_str("\\\\"),
            '\n' => out.push_str("\\n"),
            '\r' => out.push_str("\\r"),
            '\t' => out.push_str("\\t"),
            c if (c as u32) < 0x20 => out.push_str(&format!("\\u{:04x}", c as u32)),
            c => out.push(c),
        }
    }
    out.push('"');
}
