#!/usr/bin/env python3
"""Confirm a seeded breaking change (from a sub-agent's worktree) and run all checks against it.
usage: tools/seed_eval.py <property-id> <agent-worktree> <name>
Keeps /verif/seeded/<name>/{patch.diff,seed_demo.rs,NOTES.md,meta.json}; scratch copies are removed."""
import json, os, shutil, subprocess, sys, tempfile, time
VERIF = os.path.dirname(os.path.dirname(os.path.abspath(__file__)))
sys.path.insert(0, os.path.join(VERIF, 'analysis'))


def sh(cmd, cwd, env=None, timeout=1800):
    e = dict(os.environ)
    e.update(env or {})
    r = subprocess.run(cmd, cwd=cwd, env=e, shell=True, stdout=subprocess.PIPE, stderr=subprocess.STDOUT, text=True, timeout=timeout)
    return r.returncode, r.stdout


def main():
    prop, wt, name = sys.argv[1], sys.argv[2], sys.argv[3]
    dest = os.path.join(VERIF, 'seeded', name)
    os.makedirs(dest, exist_ok=True)
    shutil.copy(os.path.join(wt, 'patch.diff'), os.path.join(dest, 'patch.diff'))
    demo_src = os.path.join(wt, 'tests', 'seed_demo.rs')
    shutil.copy(demo_src, os.path.join(dest, 'seed_demo.rs'))
    for extra in os.listdir(os.path.join(wt, 'tests')):
        if extra != 'seed_demo.rs':
            src = os.path.join(wt, 'tests', extra)
            if os.path.isfile(src):
                shutil.copy(src, os.path.join(dest, 'tests_' + extra))
    if os.path.exists(os.path.join(wt, 'NOTES.md')):
        shutil.copy(os.path.join(wt, 'NOTES.md'), os.path.join(dest, 'NOTES.md'))
    tmp = tempfile.mkdtemp(prefix='kseed-')
    os.chmod(tmp, 0o755)   # demos that re-exec under another uid must be able to reach the test binary
    meta = {'property': prop, 'name': name, 'confirmed_at': time.strftime('%Y-%m-%dT%H:%M:%SZ', time.gmtime())}
    try:
        repo = os.path.join(tmp, 'repo')
        shutil.copytree('/repo', repo, ignore=shutil.ignore_patterns('target'))
        env = {'CARGO_TARGET_DIR': os.path.join(tmp, 'target'), 'CARGO_NET_OFFLINE': 'true'}
        rc, out = sh('git apply --whitespace=nowarn %s' % os.path.join(dest, 'patch.diff'), repo)
        if rc != 0:
            rc, out2 = sh('patch -p1 -i %s' % os.path.join(dest, 'patch.diff'), repo)
            out += out2
        meta['patch_applies'] = rc == 0
        if rc != 0:
            meta['error'] = out[-1500:]
            json.dump(meta, open(os.path.join(dest, 'meta.json'), 'w'), indent=1)
            print('PATCH DOES NOT APPLY', out[-500:])
            return 1
        rc, out = sh('cargo test --offline --workspace --no-fail-fast 2>&1 | grep -E "^test result|error(\\[|:)" ', repo, env)
        passed = sum(int(l.split(' passed')[0].split()[-1]) for l in out.splitlines() if l.startswith('test result') and ' passed' in l)
        failed = sum(int(l.split(' failed')[0].split()[-1]) for l in out.splitlines() if l.startswith('test result') and ' failed' in l)
        meta['suite_with_change'] = {'passed': passed, 'failed': failed, 'raw': out[-600:]}
        os.makedirs(os.path.join(repo, 'tests'), exist_ok=True)
        for fn in os.listdir(os.path.join(wt, 'tests')):
            if os.path.isfile(os.path.join(wt, 'tests', fn)):
                shutil.copy(os.path.join(wt, 'tests', fn), os.path.join(repo, 'tests', fn))
        rc1, out1 = sh('cargo test --offline --test seed_demo 2>&1 | tail -15', repo, env)
        demo_fails_with = 'test result: FAILED' in out1 or 'error: test failed' in out1
        meta['demo_with_change'] = {'fails': demo_fails_with, 'tail': out1[-800:]}
        sh('git apply -R --whitespace=nowarn %s || patch -R -p1 -i %s' % (os.path.join(dest, 'patch.diff'), os.path.join(dest, 'patch.diff')), repo)
        rc2, out2 = sh('cargo test --offline --test seed_demo 2>&1 | tail -8', repo, env)
        demo_passes_without = 'test result: ok' in out2 and 'FAILED' not in out2
        meta['demo_without_change'] = {'passes': demo_passes_without, 'tail': out2[-500:]}
        # re-apply and run the checks
        sh('git apply --whitespace=nowarn %s || patch -p1 -i %s' % (os.path.join(dest, 'patch.diff'), os.path.join(dest, 'patch.diff')), repo)
        for fn in os.listdir(os.path.join(repo, 'tests')):
            os.unlink(os.path.join(repo, 'tests', fn))
        import runner
        claimed = sorted(f[:-3].upper() for f in os.listdir(os.path.join(VERIF, 'analysis', 'rules')) if f.startswith('c') and f[1:3].isdigit())
        results = {}
        for p in claimed:
            try:
                r = runner.run_property(p, 'quick', repo, 0, write=False, quiet=True)
            except Exception as e:
                r = {'violations': [], 'engine_errors': ['crash %r' % e], 'details': {}}
            if r['violations'] or r['engine_errors']:
                results[p] = {'violations': r['violations'][:12], 'engine_errors': r['engine_errors'][:3],
                              'details': {k: v[:300] for k, v in list(r['details'].items())[:6]}}
        meta['checks_firing'] = results
        meta['caught_by_target_property'] = prop in results
        meta['confirmed'] = bool(passed >= 79 and failed == 0 and demo_fails_with and demo_passes_without)
        json.dump(meta, open(os.path.join(dest, 'meta.json'), 'w'), indent=1)
        print(name, 'confirmed' if meta['confirmed'] else 'NOT CONFIRMED', 'suite', passed, failed, '| demo fails with:', demo_fails_with,
              '| passes without:', demo_passes_without)
        for p, r in results.items():
            print('   ', p, r['violations'][:4], r['engine_errors'][:1])
        if not results:
            print('    NO CHECK FIRES')
        return 0
    finally:
        shutil.rmtree(tmp, ignore_errors=True)


if __name__ == '__main__':
    sys.exit(main())
