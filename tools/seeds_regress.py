#!/usr/bin/env python3
"""Regression over the independently seeded breaking changes kept under /verif/seeded: apply each patch to a scratch
copy of /repo and require that the check of the property the change was aimed at reports a violation (a rule instance,
not merely a lost anchor).  usage: tools/seeds_regress.py [--only SUBSTR] [--all-props] [-j N]
Not a deciding step for the repository."""
import argparse, json, multiprocessing, os, shutil, subprocess, sys, tempfile
VERIF = os.path.dirname(os.path.dirname(os.path.abspath(__file__)))
sys.path.insert(0, os.path.join(VERIF, 'analysis'))


def run_one(args):
    name, prop, props = args
    import runner
    tmp = tempfile.mkdtemp(prefix='kseedr-')
    try:
        repo = os.path.join(tmp, 'repo')
        shutil.copytree('/repo', repo, ignore=shutil.ignore_patterns('target', '.git'))
        patch = os.path.join(VERIF, 'seeded', name, 'patch.diff')
        r = subprocess.run(['patch', '-p1', '-s', '-d', repo, '-i', patch], capture_output=True, text=True)
        if r.returncode != 0:
            return name, prop, 'PATCH DOES NOT APPLY', {}
        res = {}
        for p in props:
            try:
                rr = runner.run_property(p, 'quick', repo, 0, write=False, quiet=True)
                res[p] = (sorted({k.split('|')[0] for k in rr['violations'] if '|anchor' not in k and not k.startswith('ENGINE')}), rr['engine_errors'][:1])
            except Exception as e:
                res[p] = ([], ['crash %r' % e])
        return name, prop, 'ran', res
    finally:
        shutil.rmtree(tmp, ignore_errors=True)


def main():
    ap = argparse.ArgumentParser()
    ap.add_argument('--only', default='')
    ap.add_argument('--all-props', action='store_true')
    ap.add_argument('-j', type=int, default=8)
    a = ap.parse_args()
    claimed = sorted(f[:-3].upper() for f in os.listdir(os.path.join(VERIF, 'analysis', 'rules')) if f.startswith('c') and f[1:3].isdigit())
    jobs = []
    for name in sorted(os.listdir(os.path.join(VERIF, 'seeded'))):
        if a.only and a.only not in name:
            continue
        mp = os.path.join(VERIF, 'seeded', name, 'meta.json')
        prop = json.load(open(mp))['property'] if os.path.exists(mp) else name[:3]
        jobs.append((name, prop, claimed if a.all_props else [prop]))
    with multiprocessing.Pool(a.j) as pool:
        results = pool.map(run_one, jobs)
    bad = 0
    for name, prop, status, res in results:
        if status != 'ran':
            print('%-50s %s' % (name, status))
            bad += 1
            continue
        rules, eng = res[prop]
        verdict = 'caught by %s %s' % (prop, ','.join(rules)) if rules else ('ONLY-ENGINE %s' % eng if eng else 'MISSED')
        if not rules:
            bad += 1
        others = ['%s:%s%s' % (p, ','.join(r), ' +engine' if e else '') for p, (r, e) in sorted(res.items()) if p != prop and (r or e)]
        print('%-50s %s%s' % (name, verdict, ('   also ' + ' '.join(others)) if others else ''))
    print('%d seeded changes, %d not caught by their target property' % (len(results), bad))
    return 1 if bad else 0


if __name__ == '__main__':
    sys.exit(main())
