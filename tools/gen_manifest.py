#!/usr/bin/env python3
"""Regenerates /verif/MANIFEST.json from the table below + which rule modules exist."""
import json, os, sys
VERIF = os.path.dirname(os.path.dirname(os.path.abspath(__file__)))
sys.path.insert(0, os.path.join(VERIF, 'analysis'))

TECH = {
 'C01': 'typestate/provenance rules over the MIR state graph: content writes only to private temp files, each written by one writer from a rewound source; only rename/link create key-named entries; the name validator returns its argument unchanged (no aliasing of keys)',
 'C02': 'path-order rules (must-precede / never-after / must-follow / effect closure) on the MIR state graph of publish and maintenance code, incl. that the temp-file sweep continues past per-entry failures',
 'C03': 'must-precede dataflow on the MIR state graph specialised to auto_sync=true: sync:Ok before write-side insert, chmod before publish',
 'C04': 'effect-set rules and returned-handle provenance on the MIR state graph of the cache-directory get/set/put; must-follow re-read rule on the stacked miss path',
 'C05': 'error-discipline rules per race-exposed call site on the MIR state graph (absent => benign continuation)',
 'C06': 'who-may-call over the resolved call graph, recursion check, CFG loop inventory, publish-attempt count on the MIR state graph',
 'C07': 'provenance rules on listing->plan->apply glue (capacity, rank/accessed predicates of the pushed candidates, directories filtered, evict/move-back wiring) and on the lookup re-touch that sets the read mark',
 'C09': 'effect closure of lookups/touches, argument-role checks of utimens calls, predicate implication over orderings, object-typed effect rule on the destination name in put',
 'C10': 'must-precede rule: trigger consulted and maintenance run before first publish; must-follow rule: a fired consultation is followed by a directory scan in every public operation; period expression check',
 'C11': 'must-follow rule for source removal; probe-before-choose and second-probe rules on sharded entry points; effect-set rules: set publishes only by rename, promotion only by put',
 'C12': 'constant comparison against independently derived SHA-256 values; canonical-polynomial normalisation of the mixer arithmetic; path enumeration of the fix-up',
 'C13': 'configuration-matrix specialisation of the stacked cache state graph (hit kind x action x write side) with required/forbidden effect sets',
 'C14': 'path rules on checker call sites: verdicts never dropped, scan never returns early with a checker, populate comparison',
 'C15': 'effect closure over the resolved call graph from the read-side trait; receiver provenance of write-side calls; provenance of read-side handles into mutating primitives and link sources',
 'C16': 'dominance of validator-Ok over mutating primitives on name-derived paths; validator decision table; path-kind typing',
 'C17': 'who-may-call (no directory removal), dominance of candidate filters over the candidate push, age-gate constant and direction',
 'C18': 'result-discipline inventory over every fallible call site; Ok-exit implies publish-Ok, source consumed and a stamped read-only file; no keep/persist/forget; panic inventory',
 'C19': 'rewind typestate on returned handles (duplicates share the offset) over the configuration matrix and in the lower-layer lookups; read-only open provenance; mode constants',
 'C20': 'effect/loop rules for entry-count independence, open-attempt counts, descriptor-holding field and collection inventory, live descriptor peak, who-may-call for locks and lock files',
}
LEVEL_TEXT = ('Static analysis over the type-checked program: rule instances (one per entry point / call site / configuration) are decided on '
              'rustc MIR extracted from /repo on every run -- resolved call graph, CFG loop inventory and a path-sensitive abstract '
              'interpretation (exploded state graph) queried for dominance/reachability/effect closure. It decides the structural clause '
              'named in DESIGN.md for this property on ALL paths of the code (every error edge, configuration and call site), which the '
              'sampled executions of a test cannot; it does not decide kernel behaviour or the runtime quantities listed under '
              '"does not decide" there.')
NOTE = ('Trusted: rustc front end/MIR/callee resolution; analysis/prims.py (effect classes of std/libc/filetime/tempfile calls); '
        'analysis/models.py (std combinator transfer functions); POSIX semantics of rename/link/unlink/open. '
        'Rules fail closed on missing anchors (role discovery, floors) and on unclassified sensitive callees.')
NA = {
 'C08': 'Functional input/output equality of the pure planner with the clock algorithm on all inputs: needs execution/enumeration or a '
        'solver/prover over vector lengths and the sort postcondition -- outside static analysis. Its only shape-level consequences '
        '(parametricity: outputs are a sub-multiset of inputs) cannot be violated by a compiling program, so no honest static clause exists.',
}

def main():
    props = [json.loads(l) for l in open(os.path.join(VERIF, 'properties.jsonl'))]
    checks = []
    na = []
    for p in props:
        pid = p['id']
        mod = os.path.join(VERIF, 'analysis', 'rules', pid.lower() + '.py')
        if pid in NA:
            na.append({'property_id': pid, 'reason': NA[pid]})
        elif os.path.exists(mod):
            checks.append({
                'property_id': pid,
                'quick_cmd': './kcheck %s --tier quick' % pid,
                'thorough_cmd': './kcheck %s --tier thorough' % pid,
                'evidence_file': '/verif/evidence/%s.json' % pid,
                'replay_cmd_template': './kcheck %s --replay {path}' % pid,
                'engine': 'kcheck',
                'level_claimed': {'category': 'other', 'text': LEVEL_TEXT, 'design_ref': 'DESIGN.md §5 ' + pid},
                'level_note': NOTE,
                'technique': TECH.get(pid, 'static analysis over MIR'),
            })
        else:
            na.append({'property_id': pid, 'reason': 'static check designed (DESIGN.md §5) but not built yet; not claimed until it is'})
    m = {
        'version': 1,
        'setup_cmd': './setup.sh',
        'hooks': {'guard': 'kismet_verif', 'enable': 'none needed: the checks read the program the compiler already builds (cargo +nightly check with the kfacts wrapper)',
                  'baseline_off_cmd': 'cd /repo && cargo test --workspace --no-fail-fast --offline', 'source_commits': [], 'add_only': True},
        'engines': [{'name': 'kcheck', 'path': '/verif/kcheck', 'serves_properties': [c['property_id'] for c in checks],
                     'kind_free_text': 'rustc_private MIR fact extractor (driver/) + Python rule engine (analysis/): resolved call graph, primitive table, path-sensitive abstract interpreter, graph queries'}],
        'checks': checks,
        'not_applicable': na,
        'notes': 'Technique family: static analysis. See DESIGN.md.',
    }
    json.dump(m, open(os.path.join(VERIF, 'MANIFEST.json'), 'w'), indent=1)
    print('claimed', [c['property_id'] for c in checks], 'n/a', [n['property_id'] for n in na])

main()
