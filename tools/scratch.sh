#!/bin/sh
# usage: tools/scratch.sh <seeded-name>  -> prints the path of a scratch copy of /repo with the seeded patch applied
set -e
name="$1"
d="/tmp/sc-$name"
rm -rf "$d"; mkdir -p "$d"
rsync -a --exclude target /repo/ "$d/repo/"
git -C "$d/repo" apply --whitespace=nowarn "/verif/seeded/$name/patch.diff"
echo "$d/repo"
