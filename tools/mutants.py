#!/usr/bin/env python3
"""Analyser self-validation: apply one-instance-broken variants of /repo to scratch copies and
check that the expected rule reports them (and that unrelated properties stay silent).

usage: tools/mutants.py [--only NAME_SUBSTR] [--props C03,C01] [-j N]
Not a deciding step: it never produces a VIOLATION for the repository.
"""
import argparse, importlib, json, os, shutil, subprocess, sys, tempfile, multiprocessing
VERIF = os.path.dirname(os.path.dirname(os.path.abspath(__file__)))
sys.path.insert(0, os.path.join(VERIF, 'analysis'))
sys.path.insert(0, os.path.join(VERIF, 'mutants'))


def run_one(args):
    m, props = args
    import runner
    tmp = tempfile.mkdtemp(prefix='kmut-')
    try:
        repo = os.path.join(tmp, 'repo')
        shutil.copytree('/repo', repo, ignore=shutil.ignore_patterns('target', '.git'))
        if 'patch' in m:
            r = subprocess.run(['git', 'apply', '--unsafe-paths', '--directory=' + repo, m['patch']], capture_output=True, text=True, cwd='/')
            if r.returncode != 0:
                r = subprocess.run(['patch', '-p1', '-d', repo, '-i', m['patch']], capture_output=True, text=True)
                if r.returncode != 0:
                    return (m['name'], 'SKIP (patch does not apply)', {})
        else:
            for ed in m['edits']:
                p = os.path.join(repo, ed['file'])
                s = open(p).read()
                if ed['old'] not in s:
                    return (m['name'], 'SKIP (anchor text not found in %s)' % ed['file'], {})
                s = s.replace(ed['old'], ed['new'], ed.get('count', 1))
                open(p, 'w').write(s)
        res = {}
        for prop in props:
            try:
                res[prop] = runner.run_property(prop, 'quick', repo, 0, write=False, quiet=True)
            except Exception as e:
                res[prop] = {'violations': [], 'engine_errors': ['crash: %r' % e], 'instances': 0, 'details': {}}
        return (m['name'], 'ran', res)
    finally:
        shutil.rmtree(tmp, ignore_errors=True)


def main():
    ap = argparse.ArgumentParser()
    ap.add_argument('--only', default='')
    ap.add_argument('--props', default='')
    ap.add_argument('-j', type=int, default=8)
    ap.add_argument('-v', action='store_true')
    ap.add_argument('--negatives', action='store_true', help='run the behaviour-preserving corpus: nothing may fire')
    ap.add_argument('--all-props', action='store_true', help='also run every claimed property to look for collateral alarms')
    a = ap.parse_args()
    import corpus
    importlib.reload(corpus)
    if a.negatives:
        import negatives
        corpus.MUTANTS = negatives.NEGATIVES
        a.all_props = True
    claimed = sorted(f[:-3].upper() for f in os.listdir(os.path.join(VERIF, 'analysis', 'rules')) if f.startswith('c') and f[1:3].isdigit())
    jobs = []
    for m in corpus.MUTANTS:
        if a.only and a.only not in m['name']:
            continue
        props = sorted({e[0] for e in m['expect']})
        if a.props:
            props = [p for p in a.props.split(',')]
        if a.all_props:
            props = claimed
        props = [p for p in props if p in claimed]
        if props:
            jobs.append((m, props))
    with multiprocessing.Pool(a.j) as pool:
        results = pool.map(run_one, jobs)
    ok = True
    byname = {m['name']: m for m in corpus.MUTANTS}
    for name, status, res in results:
        m = byname[name]
        if status != 'ran':
            print('%-40s %s' % (name, status))
            continue
        line = []
        for (prop, rule) in m['expect']:
            if prop not in res:
                continue
            r = res[prop]
            hit = [k for k in r['violations'] if k.startswith(rule + '|') or k.startswith(rule)]
            if r['engine_errors'] and not hit:
                line.append('%s:%s ENGINE(%s)' % (prop, rule, r['engine_errors'][0][:80]))
                ok = False
            elif hit:
                line.append('%s:%s caught' % (prop, rule))
            else:
                line.append('%s:%s MISSED (violations: %s)' % (prop, rule, r['violations'][:3]))
                ok = False
        expected_props = {e[0] for e in m['expect']} | set(m.get('also', []))
        for prop, r in res.items():
            if prop not in expected_props and (r['violations'] or r['engine_errors']):
                line.append('collateral %s: %s' % (prop, (r['violations'] + r['engine_errors'])[:2]))
        if a.negatives and line:
            ok = False
        if a.v:
            for prop, r in res.items():
                for k, d in r.get('details', {}).items():
                    print('      %s: %s' % (k, d[:400]))
        print('%-40s %s' % (name, '; '.join(line) if line else ('silent' if a.negatives else '')))
    return 0 if ok else 1


if __name__ == '__main__':
    sys.exit(main())
