"""kcheck runner: extract facts from /repo, evaluate one property's rules, write evidence."""
import argparse
import hashlib
import importlib
import json
import os
import sys
import time
import traceback

HERE = os.path.dirname(os.path.abspath(__file__))
VERIF = os.path.dirname(HERE)
sys.path.insert(0, HERE)

import extract  # noqa: E402
from ctx import Ctx, RoleError  # noqa: E402
from engine import EngineLimit  # noqa: E402


class Inst(dict):
    """One rule instance.  keys: rule, key, ok, detail, path (list of str), nontrivial, sample"""


def inst(rule, key, ok, detail='', path=None, nontrivial=True, sample=None):
    return Inst(rule=rule, key='%s|%s' % (rule, key), ok=bool(ok), detail=detail, path=path or [],
                nontrivial=nontrivial, sample=sample)


def collect(ctx, *rules):
    """Run rule functions; a missing structural anchor in one rule is reported as that rule's
    violation (fail closed) without hiding what the other rules find."""
    out = []
    for r in rules:
        try:
            out += list(r(ctx))
        except RoleError as e:
            rid = r.__name__.upper().split('_')
            out.append(inst('%s.%s' % (rid[0], rid[1]) if len(rid) > 1 else rid[0], 'anchor', False,
                            'ENGINE: structural anchor lost while evaluating %s: %s' % (r.__name__, e)))
    return out


def load_known():
    p = os.path.join(VERIF, 'known_findings.json')
    if not os.path.exists(p):
        return {'findings': [], 'fixed': []}
    with open(p) as f:
        return json.load(f)


def write_report(prop, i, n):
    d = os.path.join(VERIF, 'reports')
    os.makedirs(d, exist_ok=True)
    h = hashlib.sha1(i['key'].encode()).hexdigest()[:10]
    p = os.path.join(d, '%s-%s.txt' % (prop, h))
    with open(p, 'w') as f:
        f.write('property: %s\nrule: %s\ninstance: %s\n\n%s\n' % (prop, i['rule'], i['key'], i['detail']))
        if i.get('path'):
            f.write('\npath (entry -> offending point):\n')
            for s in i['path']:
                f.write('  ' + s + '\n')
    return p


def thorough_extras(prop, repo, ctx):
    """Thorough tier only, never a verdict about the repository: (a) the analyser is validated against its
    corpus (variants of the CURRENT tree with one instance broken must be reported by this property's rules;
    behaviour-preserving edits must stay silent); (b) the library is re-extracted under cfg(test) to record how
    the configuration analysed (what users get) differs from the one the unit tests run."""
    import multiprocessing
    sys.path.insert(0, os.path.join(VERIF, 'tools'))
    sys.path.insert(0, os.path.join(VERIF, 'mutants'))
    out = {}
    os.environ['KCHECK_NO_SELFCHECK'] = '1'
    try:
        import corpus
        import negatives
        import mutants as mtool
        jobs = [(m, [prop]) for m in corpus.MUTANTS if any(e[0] == prop for e in m['expect'])]
        # all in-house behaviour-preserving edits, and a deterministic third of the independent refactors (a different
        # third per property; `tools/mutants.py --negatives` runs all of them under every check)
        import zlib
        sel = zlib.crc32(prop.encode()) % 3
        indep = [m for m in negatives.NEGATIVES if 'patch' in m]
        njobs = [(m, [prop]) for m in negatives.NEGATIVES if 'patch' not in m] + [(m, [prop]) for i, m in enumerate(indep) if i % 3 == sel]
        with multiprocessing.Pool(12) as pool:
            res = pool.map(mtool.run_one, jobs + njobs)
        caught, missed, skipped, noisy = [], [], [], []
        byname = {m['name']: m for m in corpus.MUTANTS}
        for (name, status, r) in res[:len(jobs)]:
            if status != 'ran':
                skipped.append(name)
                continue
            want = [e[1] for e in byname[name]['expect'] if e[0] == prop]
            v = r.get(prop, {}).get('violations', [])
            if all(any(k.startswith(w) for k in v) for w in want):
                caught.append(name)
            else:
                missed.append(name)
        for (name, status, r) in res[len(jobs):]:
            if status == 'ran' and (r.get(prop, {}).get('violations') or r.get(prop, {}).get('engine_errors')):
                noisy.append(name)
        out['selfcheck'] = {'variants': len(jobs), 'reported': len(caught), 'missed': missed, 'skipped': skipped,
                            'behaviour_preserving_edits': len(njobs), 'false_alarms_on_them': noisy}
    finally:
        os.environ.pop('KCHECK_NO_SELFCHECK', None)
    try:
        tfacts, tmeta = extract.extract(repo, cfg_test=True)
        lib = ctx.facts
        diff = {}
        for name, c in lib['consts'].items():
            tc = tfacts['consts'].get(name)
            if tc is not None and tc.get('val') != c.get('val'):
                diff[name] = {'library': c.get('val'), 'cfg_test': tc.get('val')}
        only_test = sorted(k for k in tfacts['bodies'] if k not in lib['bodies'])
        missing = sorted(k for k in lib['bodies'] if k not in tfacts['bodies'])
        out['cfg_test'] = {'constants_that_differ': diff, 'bodies_only_under_cfg_test': len(only_test),
                           'library_bodies_missing_under_cfg_test': missing[:10]}
    except Exception as e:
        out['cfg_test'] = {'error': str(e)[-400:]}
    return out


def run_property(prop, tier, repo, seed, write=True, quiet=False):
    t0 = time.time()
    mod = importlib.import_module('rules.' + prop.lower())
    insts = []
    engine_errors = []
    meta = {}
    ctx = None
    try:
        facts, meta = extract.extract(repo)
        ctx = Ctx(facts, tier=tier, meta=meta)
        ctx.seed = seed
        insts = list(mod.run(ctx))
        if tier == 'thorough' and hasattr(mod, 'run_thorough'):
            insts += list(mod.run_thorough(ctx))
        # fixtures: positive examples for zero-expected rules
        if getattr(mod, 'FIXTURE_RULES', None):
            ffacts, fmeta = extract.extract(os.path.join(VERIF, 'fixtures', 'forbidden'), crate='kfix_forbidden',
                                            pkg_fingerprint='kfix-forbidden', target_name='target-fixture')
            fctx = Ctx(ffacts, tier=tier, meta=fmeta)
            fired = mod.run_fixture(fctx)
            for rule in mod.FIXTURE_RULES:
                if not fired.get(rule):
                    engine_errors.append('zero-expected rule %s did not fire on its positive fixture' % rule)
            meta['fixture_fired'] = {k: int(v) for k, v in fired.items()}
    except (extract.EngineError, RoleError, EngineLimit) as e:
        engine_errors.append('%s: %s' % (type(e).__name__, e))
    except Exception:
        engine_errors.append('internal error:\n' + traceback.format_exc())

    thorough_extra = {}
    if ctx is not None:
        engine_errors += sorted(getattr(ctx, 'blind_spots', ()))
    if tier == 'thorough' and ctx is not None and not engine_errors and os.environ.get('KCHECK_NO_SELFCHECK') != '1':
        try:
            thorough_extra = thorough_extras(prop, repo, ctx)
        except Exception:
            thorough_extra = {'error': traceback.format_exc()[-1500:]}

    # floors
    floors = dict(getattr(mod, 'FLOORS', {}))
    if tier == 'thorough':
        floors.update(getattr(mod, 'THOROUGH_FLOORS', {}))
    counts = {}
    for i in insts:
        counts[i['rule']] = counts.get(i['rule'], 0) + 1
    if not engine_errors:
        for rule, fl in floors.items():
            if counts.get(rule, 0) < fl:
                engine_errors.append('rule %s matched %d instances, fewer than its floor %d (anchor lost?)'
                                     % (rule, counts.get(rule, 0), fl))

    known = load_known()
    known_keys = {f['key']: f for f in known.get('findings', []) if f.get('property') == prop}
    violations = [i for i in insts if not i['ok']]
    new_viol = []
    out_lines = []
    for i in violations:
        if i['key'] in known_keys:
            out_lines.append('KNOWN-FINDING: property=%s %s' % (prop, known_keys[i['key']].get('what', i['key'])))
        else:
            new_viol.append(i)
    n = 0
    for i in new_viol:
        p = write_report(prop, i, n) if write else '(not written)'
        n += 1
        out_lines.append('VIOLATION property=%s replay=%s' % (prop, p))
        out_lines.append('  %s: %s' % (i['key'], i['detail'].split('\n')[0][:300]))
    for e in engine_errors:
        i = inst('ENGINE', hashlib.sha1(e.encode()).hexdigest()[:8], False, 'ENGINE: ' + e)
        p = write_report(prop, i, n) if write else '(not written)'
        n += 1
        out_lines.append('VIOLATION property=%s replay=%s' % (prop, p))
        out_lines.append('  ENGINE: ' + e.split('\n')[0][:300])

    wall = time.time() - t0
    # evidence
    oks = [i for i in insts if i['ok']]
    distinct_nontrivial = len({i['key'] for i in insts if i.get('nontrivial')})
    samples = []
    seen_rules = set()
    for i in insts:
        if i['rule'] in seen_rules:
            continue
        seen_rules.add(i['rule'])
        samples.append({'rule': i['rule'], 'instance': i['key'], 'verdict': 'holds' if i['ok'] else 'VIOLATED',
                        'detail': i['detail'][:400], 'witness_or_scope': i.get('sample') or i.get('path', [])[:12]})
    ev = {
        'property_id': prop,
        'tier': tier,
        'seed': seed,
        'level': 'other',
        'coverage': {
            'explanation': getattr(mod, 'EXPLANATION', ''),
            'evaluations': len(insts),
            'distinct_nontrivial': distinct_nontrivial,
            'rule': 'one evaluation = one rule instance (rule x entry point / call site / configuration) decided on the '
                    'MIR-derived state graph or call graph of /repo as extracted on this run; non-trivial = the '
                    'instance\'s scope contains at least one primitive event or call site',
            'obligations': len(insts),
            'discharged': len(oks),
            'rule_instances': counts,
            'floors': floors,
            'samples': samples[:40],
            'bodies_analysed': len(ctx.B) if ctx else 0,
            'call_edges': sum(len(v) for v in ctx.cg.local_edges.values()) if ctx else 0,
            'external_call_sites': sum(len(v) for v in ctx.cg.ext_calls.values()) if ctx else 0,
            'explorations': ctx.stats if ctx else {},
            'extraction': meta,
            'known_findings_listed': sorted(known_keys),
            'thorough_extras': thorough_extra,
            'exhaustive': False,
        },
        'assumptions': getattr(mod, 'ASSUMPTIONS', []) + [
            'rustc front end, MIR construction and callee resolution (nightly, -Zmir-opt-level=0) are correct',
            'analysis/prims.py classifies external primitives correctly; POSIX semantics of those primitives',
            'analysis/models.py transfer functions for std combinators are faithful',
        ],
        'wall_s': round(wall, 2),
        'violations': len(new_viol) + len(engine_errors),
    }
    if write:
        os.makedirs(os.path.join(VERIF, 'evidence'), exist_ok=True)
        with open(os.path.join(VERIF, 'evidence', '%s.json' % prop), 'w') as f:
            json.dump(ev, f, indent=1, default=str)
    if quiet:
        return {'violations': [i['key'] for i in new_viol], 'engine_errors': engine_errors, 'instances': len(insts),
                'details': {i['key']: i['detail'] for i in new_viol}}

    print('%s tier=%s: %d rule instances, %d hold, %d violated (%d known), %d engine errors, %.1fs'
          % (prop, tier, len(insts), len(oks), len(violations), len(violations) - len(new_viol), len(engine_errors), wall))
    for r in sorted(counts):
        bad = sum(1 for i in insts if i['rule'] == r and not i['ok'])
        print('  %-8s %3d instances%s' % (r, counts[r], '  (%d VIOLATED)' % bad if bad else ''))
    if thorough_extra.get('selfcheck'):
        sc = thorough_extra['selfcheck']
        print('  analyser self-check: %d/%d corpus variants reported, %d/%d behaviour-preserving edits silent%s'
              % (sc['reported'], sc['variants'], sc['behaviour_preserving_edits'] - len(sc['false_alarms_on_them']),
                 sc['behaviour_preserving_edits'], ('; missed: %s' % sc['missed']) if sc['missed'] else ''))
    for l in out_lines:
        print(l)
    return 1 if (new_viol or engine_errors) else 0


def main():
    ap = argparse.ArgumentParser()
    ap.add_argument('prop')
    ap.add_argument('--tier', default=os.environ.get('VERIF_TIER', 'quick'))
    ap.add_argument('--repo', default='/repo')
    ap.add_argument('--replay')
    a = ap.parse_args()
    if a.replay:
        print(open(a.replay).read())
        return 0
    seed = int(os.environ.get('VERIF_SEED', '0') or 0)
    tier = a.tier if a.tier in ('quick', 'thorough') else 'quick'
    return run_property(a.prop.upper(), tier, a.repo, seed)


if __name__ == '__main__':
    try:
        rc = main()
        sys.stdout.flush()
    except BrokenPipeError:
        rc = 1
        try:
            sys.stdout = open(os.devnull, 'w')
        except Exception:
            pass
    sys.exit(rc)
