"""Resolved static call graph and effect summaries over the kfacts bodies."""
from models import norm_path
import prims


class CallGraph:
    def __init__(self, facts):
        self.F = facts
        self.B = facts['bodies']
        self.T = facts['types']
        self.traits = facts['traits']
        self.local_edges = {}     # key -> set of callee keys
        self.ext_calls = {}       # key -> list of (np, class, site dict)
        self.usercb = {}          # key -> list of sites
        self.unresolved = {}      # key -> list
        self.build()

    def impl_targets(self, trait, name):
        tr = self.traits.get(trait)
        out = set()
        if not tr:
            return out
        default = None
        for m in tr['methods']:
            if m['name'] == name and m.get('key'):
                default = m['key']
        for imp in tr['impls']:
            k = imp['methods'].get(name)
            out.add(k if k else default)
        if not tr['impls'] and default:
            out.add(default)
        out.discard(None)
        return out

    def build(self):
        for key, b in self.B.items():
            le = self.local_edges.setdefault(key, set())
            ex = self.ext_calls.setdefault(key, [])
            ucb = self.usercb.setdefault(key, [])
            unres = self.unresolved.setdefault(key, [])
            for bi, blk in enumerate(b['blocks']):
                # closures and fn items mentioned in the body may be called by whoever receives them
                for st in blk['stmts']:
                    if st['k'] == 'assign':
                        rv = st['rv']
                        if rv['k'] == 'agg' and rv['agg'] == 'closure' and rv.get('key') in self.B:
                            le.add(rv['key'])
                        for o in self._operands(rv):
                            self._fn_operand(o, le)
                t = blk['term']
                if t['k'] != 'call':
                    continue
                for a in t['args']:
                    self._fn_operand(a, le)
                site = {'key': key, 'bb': bi, 'span': t.get('span'), 'cleanup': blk['cleanup'],
                        'from_expansion': t.get('from_expansion', False)}
                fo = t['func']
                if 'fn' not in fo:
                    pl = fo.get('pl') or {}
                    src = pl.get('l', 0) if fo.get('k') in ('copy', 'move') and not pl.get('p') else 0
                    for _ in range(4):      # `_t = copy _param; _t(..)`: follow plain copies back to the parameter
                        if not src or src <= b['arg_count']:
                            break
                        defs = [st2['rv'] for bl2 in b['blocks'] for st2 in bl2['stmts'] if st2['k'] == 'assign' and not st2['pl']['p'] and st2['pl']['l'] == src]
                        if len(defs) == 1 and defs[0]['k'] == 'use' and defs[0]['op'].get('k') in ('copy', 'move') and not defs[0]['op']['pl']['p']:
                            src = defs[0]['op']['pl']['l']
                        else:
                            src = 0
                    if 1 <= src <= b['arg_count']:
                        # a function pointer received as a parameter: whatever a local caller passes is an edge from
                        # that caller (fn items mentioned in a body are edges of that body, see above); a public
                        # function may also receive it from the user
                        if b.get('public'):
                            ucb.append((site, 'fn pointer parameter'))
                        continue
                    unres.append(('indirect', site))
                    continue
                c = fo['fn']
                r = c['resolved']
                if r.get('kind') == 'item' and r.get('local') and r.get('key') in self.B:
                    le.add(r['key'])
                    continue
                if c.get('trait') and c.get('trait_local'):
                    tg = self.impl_targets(c['trait'], c['name'])
                    sty = self.T[c['self_ty']] if 'self_ty' in c else None
                    if sty is not None and sty['k'] == 'adt':
                        tr = self.traits[c['trait']]
                        for imp in tr['impls']:
                            if imp['self_ty_s'] == sty['s']:
                                k = imp['methods'].get(c['name'])
                                if k:
                                    tg = {k}
                    le |= tg
                    continue
                if c.get('trait') in ('std::ops::FnOnce', 'std::ops::FnMut', 'std::ops::Fn'):
                    sty = self.T[c['self_ty']] if 'self_ty' in c else None
                    if sty is not None and sty['k'] == 'closure' and sty.get('key') in self.B:
                        le.add(sty['key'])
                    elif sty is not None and sty['k'] == 'fndef' and sty.get('key') in self.B:
                        le.add(sty['key'])
                    elif sty is not None and sty['k'] == 'fndef':
                        np = norm_path(sty['def'])
                        cls, roles = prims.classify(np)
                        ex.append((np, cls, site))
                    else:
                        ucb.append((site, sty['s'] if sty else '?'))
                    continue
                path = r.get('path') if r.get('kind') == 'item' and r.get('path') else c['path']
                np = norm_path(path)
                cls, roles = prims.classify(np)
                site['unsafe'] = c.get('unsafe', False)
                site['gargs'] = c.get('gargs', [])
                ex.append((np, cls, site))

    def _operands(self, rv):
        k = rv['k']
        if k in ('use', 'cast', 'repeat'):
            return [rv['op']]
        if k == 'binop':
            return [rv['a'], rv['b']]
        if k == 'unop':
            return [rv['a']]
        if k == 'agg':
            return rv['ops']
        return []

    def _fn_operand(self, o, le):
        if o.get('k') == 'const' and 'fn' in o:
            c = o['fn']
            k = c.get('key') or c['resolved'].get('key')
            if k in self.B:
                le.add(k)

    # ------------------------------------------------------------------

    def reach(self, key):
        seen = {key}
        work = [key]
        while work:
            k = work.pop()
            for n in self.local_edges.get(k, ()):
                if n not in seen:
                    seen.add(n)
                    work.append(n)
        return seen

    def effects(self, key):
        """Set of effect classes reachable from `key` (+ 'usercb' / 'UNCLASSIFIED' / 'indirect')."""
        out = set()
        for k in self.reach(key):
            for (np, cls, site) in self.ext_calls.get(k, ()):
                if cls:
                    out.add(cls)
            if self.usercb.get(k):
                out.add('usercb')
            if self.unresolved.get(k):
                out.add('indirect')
        return out

    def pure_bodies(self):
        """Local bodies from which no file/descriptor/scheduling primitive, user
        callback or unclassified sensitive callee is reachable."""
        bad = prims.FS_CLASSES | prims.WAITING | {'usercb', 'UNCLASSIFIED', 'indirect', 'leak', 'process', 'catch_unwind'}
        memo = {}
        out = set()
        for k in self.B:
            if not (self.effects(k) & bad):
                out.add(k)
        return out

    def cycles(self):
        """SCCs of size > 1 or self loops in the local call graph (recursion)."""
        index = {}
        low = {}
        stack = []
        on = set()
        res = []
        counter = [0]
        import sys
        sys.setrecursionlimit(10000)

        def visit(v):
            index[v] = low[v] = counter[0]
            counter[0] += 1
            stack.append(v)
            on.add(v)
            for w in self.local_edges.get(v, ()):
                if w not in index:
                    visit(w)
                    low[v] = min(low[v], low[w])
                elif w in on:
                    low[v] = min(low[v], index[w])
            if low[v] == index[v]:
                comp = []
                while True:
                    w = stack.pop()
                    on.discard(w)
                    comp.append(w)
                    if w == v:
                        break
                if len(comp) > 1 or v in self.local_edges.get(v, ()):
                    res.append(comp)

        for v in self.B:
            if v not in index:
                visit(v)
        return res
