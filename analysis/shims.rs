
// ---------------------------------------------------------------------------------------------------------------------
// kismet-cache verification shims (appended in memory to the analysed crate's root file by the kfacts driver; never
// written to the repository).  Plain-loop renderings of std's closure-driven iterator drivers and lazy adapters, generic
// over the iterator and the closure.  The abstract interpreter substitutes these bodies for calls such as
// `Iterator::find` / `any` / `try_for_each` and for `next()` on a lazy `map` / `filter` / ... value, so that the effects
// of the closures and the early exits of the loops appear in the state graph exactly as if the code had been written
// with `while let Some(x) = it.next()`.
// ---------------------------------------------------------------------------------------------------------------------
#[allow(dead_code, unused_mut, unused_variables, clippy::all)]
mod __kverif_shims {
    pub fn find<I: Iterator, P: FnMut(&I::Item) -> bool>(it: &mut I, mut p: P) -> Option<I::Item> {
        while let Some(x) = it.next() {
            if p(&x) {
                return Some(x);
            }
        }
        None
    }

    pub fn any<I: Iterator, P: FnMut(I::Item) -> bool>(it: &mut I, mut p: P) -> bool {
        while let Some(x) = it.next() {
            if p(x) {
                return true;
            }
        }
        false
    }

    pub fn all<I: Iterator, P: FnMut(I::Item) -> bool>(it: &mut I, mut p: P) -> bool {
        while let Some(x) = it.next() {
            if !p(x) {
                return false;
            }
        }
        true
    }

    pub fn find_map<I: Iterator, B, F: FnMut(I::Item) -> Option<B>>(it: &mut I, mut f: F) -> Option<B> {
        while let Some(x) = it.next() {
            if let Some(b) = f(x) {
                return Some(b);
            }
        }
        None
    }

    pub fn position<I: Iterator, P: FnMut(I::Item) -> bool>(it: &mut I, mut p: P) -> Option<usize> {
        let mut i = 0usize;
        while let Some(x) = it.next() {
            if p(x) {
                return Some(i);
            }
            i += 1;
        }
        None
    }

    pub fn for_each<I: Iterator, F: FnMut(I::Item)>(mut it: I, mut f: F) {
        while let Some(x) = it.next() {
            f(x);
        }
    }

    pub fn try_for_each_result<I: Iterator, E, F: FnMut(I::Item) -> Result<(), E>>(it: &mut I, mut f: F) -> Result<(), E> {
        while let Some(x) = it.next() {
            f(x)?;
        }
        Ok(())
    }

    pub fn try_for_each_option<I: Iterator, F: FnMut(I::Item) -> Option<()>>(it: &mut I, mut f: F) -> Option<()> {
        while let Some(x) = it.next() {
            f(x)?;
        }
        Some(())
    }

    pub fn fold<I: Iterator, B, F: FnMut(B, I::Item) -> B>(mut it: I, init: B, mut f: F) -> B {
        let mut acc = init;
        while let Some(x) = it.next() {
            acc = f(acc, x);
        }
        acc
    }

    pub fn try_fold_result<I: Iterator, B, E, F: FnMut(B, I::Item) -> Result<B, E>>(it: &mut I, init: B, mut f: F) -> Result<B, E> {
        let mut acc = init;
        while let Some(x) = it.next() {
            acc = f(acc, x)?;
        }
        Ok(acc)
    }

    pub fn count<I: Iterator>(mut it: I) -> usize {
        let mut n = 0usize;
        while let Some(_x) = it.next() {
            n += 1;
        }
        n
    }

    pub fn last<I: Iterator>(mut it: I) -> Option<I::Item> {
        let mut l = None;
        while let Some(x) = it.next() {
            l = Some(x);
        }
        l
    }

    pub fn collect_vec<I: Iterator>(mut it: I) -> Vec<I::Item> {
        let mut v = Vec::new();
        while let Some(x) = it.next() {
            v.push(x);
        }
        v
    }

    pub fn collect_result_vec<I: Iterator<Item = Result<T, E>>, T, E>(mut it: I) -> Result<Vec<T>, E> {
        let mut v = Vec::new();
        while let Some(x) = it.next() {
            v.push(x?);
        }
        Ok(v)
    }

    // ---- next() of the lazy adapters (the adapter value is modelled as the pair (inner iterator, closure))
    pub fn map_next<I: Iterator, B, F: FnMut(I::Item) -> B>(it: &mut I, f: &mut F) -> Option<B> {
        match it.next() {
            Some(x) => Some(f(x)),
            None => None,
        }
    }

    pub fn filter_next<I: Iterator, P: FnMut(&I::Item) -> bool>(it: &mut I, p: &mut P) -> Option<I::Item> {
        while let Some(x) = it.next() {
            if p(&x) {
                return Some(x);
            }
        }
        None
    }

    pub fn filter_map_next<I: Iterator, B, F: FnMut(I::Item) -> Option<B>>(it: &mut I, f: &mut F) -> Option<B> {
        while let Some(x) = it.next() {
            if let Some(b) = f(x) {
                return Some(b);
            }
        }
        None
    }

    pub fn take_while_next<I: Iterator, P: FnMut(&I::Item) -> bool>(it: &mut I, p: &mut P) -> Option<I::Item> {
        match it.next() {
            Some(x) => {
                if p(&x) {
                    Some(x)
                } else {
                    None
                }
            }
            None => None,
        }
    }

    pub fn skip_while_next<I: Iterator, P: FnMut(&I::Item) -> bool>(it: &mut I, p: &mut P) -> Option<I::Item> {
        while let Some(x) = it.next() {
            if !p(&x) {
                return Some(x);
            }
        }
        None
    }

    pub fn inspect_next<I: Iterator, F: FnMut(&I::Item)>(it: &mut I, f: &mut F) -> Option<I::Item> {
        match it.next() {
            Some(x) => {
                f(&x);
                Some(x)
            }
            None => None,
        }
    }

    pub fn flatten_option_next<I: Iterator<Item = Option<T>>, T>(it: &mut I) -> Option<T> {
        while let Some(x) = it.next() {
            if let Some(y) = x {
                return Some(y);
            }
        }
        None
    }

    pub fn flatten_result_next<I: Iterator<Item = Result<T, E>>, T, E>(it: &mut I) -> Option<T> {
        while let Some(x) = it.next() {
            if let Ok(y) = x {
                return Some(y);
            }
        }
        None
    }
}
