"""Pretty-printer for kfacts MIR bodies (diagnostics only)."""
import json
import sys


class PP:
    def __init__(self, facts):
        self.f = facts
        self.T = facts["types"]

    def pl(self, p):
        s = "_%d" % p["l"]
        for e in p["p"]:
            if e == "deref":
                s = "(*%s)" % s
            elif e[0] == "f":
                s = "%s.%d" % (s, e[1])
            elif e[0] == "dc":
                s = "(%s as %s)" % (s, e[2])
            else:
                s = "%s[%s]" % (s, e)
        return s

    def op(self, o):
        if o["k"] in ("copy", "move"):
            return o["k"] + " " + self.pl(o["pl"])
        if "fn" in o:
            return "fn " + o["fn"]["path"]
        if "promoted" in o:
            return "promoted[%d]" % o["promoted"]
        if "named" in o:
            return "named " + o["named"] + "=" + str(o.get("val"))
        return "const " + str(o.get("val")) + ":" + self.T[o["ty"]]["s"]

    def rv(self, r):
        k = r["k"]
        if k == "use":
            return self.op(r["op"])
        if k == "ref":
            return ("&mut " if r["mut"] else "&") + self.pl(r["pl"])
        if k == "cast":
            return "cast<%s>(%s) as %s" % (r["cast"], self.op(r["op"]), self.T[r["ty"]]["s"])
        if k == "binop":
            return "%s(%s, %s)" % (r["op"], self.op(r["a"]), self.op(r["b"]))
        if k == "unop":
            return "%s(%s)" % (r["op"], self.op(r["a"]))
        if k == "discr":
            return "discr(%s)" % self.pl(r["pl"])
        if k == "agg":
            what = (r.get("adt", "") + "::" + r.get("variant_name", "")) if r["agg"] == "adt" else r.get("key", r["agg"])
            return "agg %s(%s)" % (what, ", ".join(self.op(x) for x in r["ops"]))
        return str(r)

    def show(self, key, b=None, out=sys.stdout):
        b = b or self.f["bodies"][key]
        w = out.write
        w("== %s args=%d generics=%s\n" % (key, b["arg_count"], b.get("generics")))
        for i, l in enumerate(b["locals"]):
            w("  _%d: %s %s\n" % (i, self.T[l["ty"]]["s"], l.get("name", "")))
        for i, bl in enumerate(b["blocks"]):
            w(" bb%d%s:\n" % (i, " (cleanup)" if bl["cleanup"] else ""))
            for s in bl["stmts"]:
                if s["k"] == "assign":
                    w("    %s = %s\n" % (self.pl(s["pl"]), self.rv(s["rv"])))
                elif s["k"] in ("live", "dead"):
                    pass
                else:
                    w("    %s\n" % s)
            t = bl["term"]
            if t["k"] == "call":
                fo = t["func"]
                c = fo.get("fn")
                if c:
                    name = c["path"] + "<" + ",".join(c["gargs"]) + "> [" + c["resolved"].get("kind", "?") + " " + c["resolved"].get("path", "") + "]"
                else:
                    name = self.op(fo)
                w("    %s = call %s(%s) -> bb%s unwind %s  @%s\n" % (
                    self.pl(t["dest"]), name, ", ".join(self.op(a) for a in t["args"]), t["target"], t["unwind"], t["span"]))
            elif t["k"] == "switch":
                w("    switch %s %s else bb%s\n" % (self.op(t["discr"]), t["targets"], t["otherwise"]))
            elif t["k"] == "drop":
                w("    drop %s -> bb%s unwind %s\n" % (self.pl(t["pl"]), t["target"], t["unwind"]))
            elif t["k"] == "assert":
                w("    assert %s == %s (%s) -> bb%s\n" % (self.op(t["cond"]), t["expected"], t["msg"], t["target"]))
            else:
                w("    %s\n" % {k: v for k, v in t.items() if k not in ("span", "from_expansion")})
        for i, p in enumerate(b.get("promoted", [])):
            self.show("%s::promoted[%d]" % (key, i), p, out)


if __name__ == "__main__":
    facts = json.load(open(sys.argv[1]))
    pp = PP(facts)
    for k in facts["bodies"]:
        if any(a in k or a in facts["bodies"][k]["path"] for a in sys.argv[2:]):
            pp.show(k)
