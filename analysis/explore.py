"""Debug helper: explore one entry point and print the event graph."""
import json, sys, time
import values
from values import show, VAL
from engine import Interp
from models import Models

def evstr(ev):
    if ev is None: return ''
    k=ev['k']
    if k=='traitcall': return 'TRAITCALL %s(%s)'%(ev['path'], ', '.join(show(a,3) for a in ev['args']))
    if k=='pure_local': return 'PURE %s(%s)'%(ev['path'], ', '.join(show(a,3) for a in ev['args']))
    if k=='ext': return 'EXT %s(%s)'%(ev['path'], ', '.join(show(a,3) for a in ev['args']))
    if k=='usercb': return 'USERCB %s(%s)'%(show(ev['callee'],2), ', '.join(show(a,3) for a in ev['args']))
    if k=='refine': return 'REFINE %s = %s'%(show(ev['val'],3), ev['vname'])
    if k=='branch': return 'BRANCH %s %s'%(show(ev['val'],3), ('== %s'%ev['eq']) if 'eq' in ev else ('not in %s'%(ev['ne'],)))
    if k=='dyn': return 'DYN %s -> %s'%(ev['trait'], ev['impl'])
    if k=='enter': return 'ENTER %s'%ev['key']
    if k=='leave': return 'LEAVE %s'%ev['key']
    if k=='drop': return 'DROP %s : %s'%(show(ev['val'],2), ev['ty'][:50])
    if k=='ret': return 'RET %s %s %s'%(ev.get('variant',''), ev.get('variant2',''), show(ev['val'],3))
    if k=='panic': return 'PANIC %s %s'%(ev.get('why'), ev.get('msg',''))
    return k.upper()+' '+str({a:b for a,b in ev.items() if a not in('k','site','ctx')})[:100]

if __name__=='__main__':
    facts=json.load(open(sys.argv[1]))
    key=sys.argv[2]
    keys=[k for k in facts['bodies'] if key==k or key in facts['bodies'][k]['path']]
    key=keys[0]
    I=Interp(facts, Models())
    from callgraph import CallGraph
    if '--inline-pure' not in sys.argv: I.opaque=CallGraph(facts).pure_bodies()
    if '--layer' in sys.argv: I.summarise_traits={'stack::FullCache','readonly::ReadSide'}
    t0=time.time()
    g=I.run(key)
    print('entry',key,'nodes',g.n,'edges',len(g.edges),'terms',len(g.term),'values',len(VAL),'%.2fs'%(time.time()-t0))
    print('notes',set(g.notes))
    if '-v' in sys.argv:
        for (a,b,ev) in g.edges:
            if ev is not None and ev['k'] not in ('drop',): print(a,'->',b,evstr(ev))
    from collections import Counter
    c=Counter()
    for n,ev in g.term.items(): c[(ev['k'],ev.get('variant'),ev.get('variant2'),ev.get('why'))]+=1
    print(c)
