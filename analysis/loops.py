"""Intraprocedural loop inventory over MIR CFGs (non-cleanup blocks)."""
from models import norm_path
import prims

ACCEPTED_ITERATORS = (
    # iterator type prefix -> what bounds it
    ('std::fs::ReadDir', 'directory entries'),
    ('std::iter::Flatten<std::fs::ReadDir>', 'directory entries'),
    ('std::vec::IntoIter<', 'a vector built from a listing / plan'),
    ('std::slice::Iter<', 'a slice (configured cache stack or listing)'),
    ('std::vec::Drain<', 'a vector built from a listing / plan'),
)


def succs(t):
    k = t['k']
    if k == 'goto':
        return [t['target']]
    if k == 'switch':
        return [x[1] for x in t['targets']] + [t['otherwise']]
    if k in ('call',):
        return [t['target']] if t['target'] is not None else []
    if k in ('drop', 'assert'):
        return [t['target']]
    return []


def body_sccs(body):
    blocks = body['blocks']
    n = len(blocks)
    adj = [[s for s in succs(b['term']) if not blocks[s]['cleanup']] if not b['cleanup'] else [] for b in blocks]
    index = {}
    low = {}
    on = set()
    stack = []
    out = []
    counter = [0]

    def strong(v):
        work = [(v, 0)]
        while work:
            v, i = work[-1]
            if i == 0:
                index[v] = low[v] = counter[0]
                counter[0] += 1
                stack.append(v)
                on.add(v)
            if i < len(adj[v]):
                work[-1] = (v, i + 1)
                w = adj[v][i]
                if w not in index:
                    work.append((w, 0))
                elif w in on:
                    low[v] = min(low[v], index[w])
            else:
                work.pop()
                if work:
                    u = work[-1][0]
                    low[u] = min(low[u], low[v])
                if low[v] == index[v]:
                    comp = []
                    while True:
                        w = stack.pop()
                        on.discard(w)
                        comp.append(w)
                        if w == v:
                            break
                    if len(comp) > 1 or v in adj[v]:
                        out.append(sorted(comp))

    for v in range(n):
        if v not in index and not blocks[v]['cleanup']:
            strong(v)
    return out, adj


def acyclic_without(comp, adj, removed):
    nodes = [v for v in comp if v not in removed]
    s = set(nodes)
    indeg = {v: 0 for v in nodes}
    for v in nodes:
        for w in adj[v]:
            if w in s:
                indeg[w] += 1
    q = [v for v in nodes if indeg[v] == 0]
    seen = 0
    while q:
        v = q.pop()
        seen += 1
        for w in adj[v]:
            if w in s:
                indeg[w] -= 1
                if indeg[w] == 0:
                    q.append(w)
    return seen == len(nodes)


def loop_inventory(ctx):
    """-> list of dicts describing every CFG cycle of every body."""
    cg = ctx.cg
    out = []
    for key, body in ctx.B.items():
        comps, adj = body_sccs(body)
        for comp in comps:
            cs = set(comp)
            effects = set()
            callees = set()
            next_blocks = []
            iter_types = []
            for bi in comp:
                t = body['blocks'][bi]['term']
                if t['k'] != 'call' or 'fn' not in t['func']:
                    continue
                c = t['func']['fn']
                r = c['resolved']
                np = norm_path(r.get('path') if r.get('kind') == 'item' and r.get('path') else c['path'])
                if np.rsplit('::', 1)[-1] in ('split_first', 'split_last') and 'slice' in np:
                    # `while let Some((x, rest)) = s.split_first() { s = rest; .. }`: a slice peeled from one end, bounded
                    # by its length like a slice iterator
                    next_blocks.append(bi)
                    iter_types.append('std::slice::Iter<(peeled slice)>')
                if np.endswith('::next') and ('Iterator' in np or 'Iterator' in c.get('trait', '')):
                    next_blocks.append(bi)
                    at = ctx.T[t['arg_tys'][0]] if t.get('arg_tys') else None
                    if at is not None and at['k'] == 'ref':
                        iter_types.append(ctx.T[at['to']]['s'])
            # effects of everything called from inside the loop
            for (np, cls, site) in cg.ext_calls.get(key, ()):
                if site['bb'] in cs and cls:
                    effects.add(cls)
            for bi in comp:
                t = body['blocks'][bi]['term']
                if t['k'] == 'call' and 'fn' in t['func']:
                    c = t['func']['fn']
                    r = c['resolved']
                    tg = set()
                    if r.get('kind') == 'item' and r.get('local') and r.get('key') in ctx.B:
                        tg.add(r['key'])
                    elif c.get('trait') and c.get('trait_local'):
                        tg |= cg.impl_targets(c['trait'], c['name'])
                    elif c.get('trait') in ('std::ops::FnOnce', 'std::ops::FnMut', 'std::ops::Fn'):
                        sty = ctx.T[c['self_ty']] if 'self_ty' in c else None
                        if sty is not None and sty.get('key') in ctx.B:
                            tg.add(sty['key'])
                        else:
                            effects.add('usercb')
                    for k2 in tg:
                        callees.add(k2)
                        effects |= cg.effects(k2)
            out.append({'key': key, 'path': body['path'], 'blocks': comp, 'effects': effects, 'callees': callees,
                        'next_blocks': next_blocks, 'iter_types': iter_types,
                        'iterator_driven': bool(next_blocks) and acyclic_without(comp, adj, set(next_blocks)),
                        'span': body['blocks'][comp[0]]['term'].get('span', '')})
    return out
