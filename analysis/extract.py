"""Run the kfacts driver over /repo's current working tree and load the fact file.

The library crate is re-analysed on every call: the crate's own cargo fingerprint
is deleted first and a fresh nonce is echoed through the fact file, so a stale
file (cargo's freshness cache skipping the wrapper) is detected, not trusted.
"""
import fcntl
import glob
import json
import os
import shutil
import subprocess
import sys
import time
import uuid

VERIF = os.path.dirname(os.path.dirname(os.path.abspath(__file__)))
DRIVER = os.path.join(VERIF, "driver", "target", "debug", "kfacts")
CACHE = os.path.join(VERIF, ".cache")


class EngineError(Exception):
    pass


def _sysroot():
    return subprocess.check_output(["rustc", "+nightly", "--print", "sysroot"], text=True).strip()


def ensure_driver():
    if not os.path.exists(DRIVER):
        r = subprocess.run(["cargo", "build", "--offline"], cwd=os.path.join(VERIF, "driver"),
                           stdout=subprocess.PIPE, stderr=subprocess.STDOUT, text=True)
        if r.returncode != 0 or not os.path.exists(DRIVER):
            raise EngineError("kfacts driver does not build:\n" + r.stdout[-2000:])


def extract(repo="/repo", crate="kismet_cache", pkg_fingerprint="kismet-cache", cfg_test=False, target_name="target"):
    """Returns (facts, meta)."""
    ensure_driver()
    os.makedirs(CACHE, exist_ok=True)
    target = os.path.join(CACHE, target_name + ("-test" if cfg_test else ""))
    os.makedirs(target, exist_ok=True)
    lock = open(os.path.join(CACHE, target_name + ".lock"), "w")
    fcntl.flock(lock, fcntl.LOCK_EX)
    try:
        for d in glob.glob(os.path.join(target, "debug", ".fingerprint", pkg_fingerprint + "-*")):
            shutil.rmtree(d, ignore_errors=True)
        nonce = uuid.uuid4().hex
        out = os.path.join(CACHE, "facts-%s-%d.json" % (nonce[:8], os.getpid()))
        env = dict(os.environ)
        env.update({
            "LD_LIBRARY_PATH": _sysroot() + "/lib",
            "RUSTFLAGS": "-Zmir-opt-level=0 -Awarnings",
            "RUSTC_WORKSPACE_WRAPPER": DRIVER,
            "KFACTS_OUT": out,
            "KFACTS_NONCE": nonce,
            "KFACTS_CRATE": crate,
            "KFACTS_SHIMS": os.path.join(VERIF, "analysis", "shims.rs"),
            "CARGO_TARGET_DIR": target,
            "CARGO_NET_OFFLINE": "true",
        })
        cmd = ["cargo", "+nightly", "check", "--offline", "--lib"]
        if cfg_test:
            cmd += ["--profile", "test"]
            env["KFACTS_CRATE"] = crate
        t0 = time.time()
        r = subprocess.run(cmd, cwd=repo, env=env, stdout=subprocess.PIPE, stderr=subprocess.STDOUT, text=True)
        if r.returncode != 0:
            raise EngineError("cargo check failed in %s:\n%s" % (repo, r.stdout[-4000:]))
        if not os.path.exists(out):
            raise EngineError("fact file was not produced (driver skipped?):\n" + r.stdout[-2000:])
        with open(out) as f:
            facts = json.load(f)
        os.unlink(out)
        if facts.get("nonce") != nonce:
            raise EngineError("stale fact file: nonce mismatch")
        # the analysis shims are bodies of the interpreter, not of the program: keep them apart
        shim_keys = [k for k, b in facts["bodies"].items() if b["path"].startswith("__kverif_shims::")]
        facts["shims"] = {k: facts["bodies"].pop(k) for k in shim_keys}
        for k in [k for k in facts.get("adts", {}) if k.startswith("__kverif_shims::")]:
            facts["adts"].pop(k)
        meta = {"extract_s": round(time.time() - t0, 2), "repo": repo, "bodies": len(facts["bodies"]), "shims": len(facts["shims"]),
                "cfg": facts.get("cfg"), "cfg_test": facts.get("cfg_test")}
        return facts, meta
    finally:
        fcntl.flock(lock, fcntl.LOCK_UN)
        lock.close()


if __name__ == "__main__":
    repo = sys.argv[1] if len(sys.argv) > 1 else "/repo"
    facts, meta = extract(repo)
    print(json.dumps(meta))
    if len(sys.argv) > 2:
        json.dump(facts, open(sys.argv[2], "w"))
