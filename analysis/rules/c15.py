"""C15 -- read-only caches are never modified (DESIGN §5 C15)."""
import prims
import values
from values import VAL, show
from runner import inst
from rules.common import tags_of, cls_of, witness_path, arg_role, obj_root, strip_view
from graph import path_brief

EXPLANATION = ('(R15.1) call-graph effect closure of every implementation of every read-side trait method and of the read-only '
               'stack\'s get/touch is contained in {stat, open read-only, set-atime, seek, read, checker callback}; on their state '
               'graphs the only utimens-by-handle call passes None for mtime; (R15.2) in the stacked cache (dyn calls kept as '
               'abstract operations) every write-side trait call has a receiver derived from the write-side field, and the '
               'read-side field only ever receives the read-side trait\'s methods; (R15.3) the constructors used by the read-side '
               'builder, and the builder itself, reach no filesystem primitive (nothing is created at construction); (R15.4) in the '
               'stacked cache a handle returned by a read-side lookup is never the object of a mutating primitive nor the source of '
               'a link (no second name for a read-only inode).')
FLOORS = {'R15.1': 6, 'R15.2': 8, 'R15.3': 4, 'R15.4': 2}
FIXTURE_RULES = []

ALLOWED_RO = {'probe', 'open_ro', 'meta_atime', 'meta_times_h', 'seek', 'read', 'usercb'}


def r15_1(ctx):
    out = []
    rt = ctx.role('read_trait')
    tr = ctx.traits[rt]
    entries = []
    for imp in tr['impls']:
        for name, k in imp['methods'].items():
            entries.append(('%s::%s for %s' % (rt, name, imp['self_ty_s']), k))
    ro = ctx.role('readonly_cache')
    for k, b in ctx.B.items():
        if b['public'] and b.get('impl_self_ty') is not None and ctx.T[b['impl_self_ty']].get('adt') == ro \
                and not b.get('impl_trait') and (ctx.cg.effects(k) & prims.FS_CLASSES):
            entries.append((b['path'], k))
    for name, k in entries:
        eff = ctx.cg.effects(k) & (prims.FS_CLASSES | prims.WAITING | {'usercb', 'UNCLASSIFIED', 'leak', 'process'})
        bad = eff - ALLOWED_RO
        detail = 'effects %s' % sorted(eff)
        path = []
        if bad:
            detail = 'read-only operation can reach %s' % sorted(bad)
            for b2 in ctx.cg.reach(k):
                for (np, cls, site) in ctx.cg.ext_calls.get(b2, ()):
                    if cls in bad:
                        path.append('%s %s [%s] in %s' % (site['span'], np, cls, ctx.B[b2]['path']))
        else:
            # the by-handle utimens must not move mtime
            q = ctx.explore(k)
            for e in q.prim_edges('meta_times_h'):
                ev = q.E[e][2]
                mt = arg_role(ev, 'mtime')
                t = VAL[mt] if mt is not None else None
                if not (t is not None and t[0] == 'agg' and t[1] == 'std::option::Option' and t[2] == 'v0'):
                    bad = {'meta_times_h(mtime != None)'}
                    detail = '%s %s may change the modification time (mtime operand %s)' % (ev['site'][2], ev['path'], show(mt))
                    path = witness_path(q, e)
        out.append(inst('R15.1', name, not bad, detail, path=path[:8]))
    return out


def stack_entries(ctx):
    sc = ctx.role('stack_cache')
    out = []
    for k, b in ctx.B.items():
        if b['public'] and b.get('impl_self_ty') is not None and ctx.T[b['impl_self_ty']].get('adt') == sc \
                and not b.get('impl_trait') and (ctx.cg.effects(k) & (prims.FS_CLASSES | {'usercb'})):
            out.append((b['path'], k))
    return out


def r15_2(ctx):
    out = []
    f = ctx.stack_fields()
    wt, rt = ctx.role('write_trait'), ctx.role('read_trait')
    ws_field = 'f%d' % f['write_side']
    rs_field = 'f%d' % f['read_side']
    for name, k in stack_entries(ctx):
        q = ctx.explore(k, mode='layer')
        calls = q.edges(lambda ev: ev['k'] == 'traitcall')
        bad = []
        nw = 0
        for e in calls:
            ev = q.E[e][2]
            recv = ev['args'][0]
            flds = set()
            for s in values.subs(recv):
                t = VAL[s]
                if t[0] == 'sym' and t[1] == 'fld' and VAL[t[2]][0] == 'sym' and VAL[t[2]][1] == 'ld' and VAL[VAL[t[2]][2]][1] == 'param':
                    flds.add(t[3])
            if ev['trait'] == wt:
                nw += 1
                if flds != {ws_field}:
                    bad.append((e, 'write-side operation %s invoked on a receiver not derived from the write-side field (fields %s)' % (ev['method'], sorted(flds))))
            elif ev['trait'] == rt:
                if flds and ws_field in flds:
                    bad.append((e, 'read-side trait call on the write-side object'))
        # the read-side field itself is only ever handed to the read-only stack's own get/touch
        detail = '%d write-side operations, all on the write-side field' % nw
        path = []
        if bad:
            detail = bad[0][1]
            path = witness_path(q, bad[0][0])
        out.append(inst('R15.2', name, not bad, detail, path=path, nontrivial=bool(calls)))
    return out


def r15_3(ctx):
    out = []
    rt = ctx.role('read_trait')
    tr = ctx.traits[rt]
    selfs = {imp['self_ty_s'] for imp in tr['impls']}
    for k, b in ctx.B.items():
        if not b['public'] or b['def_kind'] != 'AssocFn':
            continue
        ret = ctx.T[b['locals'][0]['ty']]['s']
        sty = ctx.T[b['impl_self_ty']]['s'] if b.get('impl_self_ty') is not None else ''
        is_ctor = ret in selfs and b['arg_count'] >= 1 and 'self' not in [l.get('name') for l in b['locals'][1:2]]
        is_builder = 'Builder' in sty and not b.get('impl_trait')
        if is_ctor or is_builder:
            # a checker function merely *stored* by the builder contributes 'read'/'seek'; nothing else is tolerated
            eff = (ctx.cg.effects(k) & (prims.FS_CLASSES | prims.WAITING)) - {'read', 'seek'}
            out.append(inst('R15.3', b['path'], not eff, 'constructor/builder method reaches no filesystem primitive' if not eff
                            else 'construction reaches %s' % sorted(eff)))
    return out


def _derived(v, _memo=None):
    """sub-terms a value is computed from, not counting what was merely written *into* a mutated object"""
    out = set()
    work = [v]
    while work:
        x = work.pop()
        if x in out:
            continue
        out.add(x)
        t = VAL[x]
        if t[0] == 'sym' and t[1] == 'mut':
            work.append(t[2])
        else:
            work.extend(values.children(t))
    return out


READ_ONLY_USES = {'probe', 'seek', 'read', 'close', 'open_ro', 'sync', 'fd_raw'}


def r15_4(ctx):
    """What the stacked cache does with a file it got from the read side: the handle of a read-side hit may be read,
    rewound, compared, returned or dropped.  It is never the object of a mutating primitive, and never the *source* of
    a link (a second name for the read-only inode would let every later chmod/utimens/unlink of the write cache land
    on the read-only cache's file)."""
    out = []
    rt = ctx.role('read_trait')
    for name, k in stack_entries(ctx):
        q = ctx.explore(k, mode='layer')
        R = q.edges(lambda ev: ev['k'] == 'traitcall' and ev['trait'] == rt)
        handles = set()
        for e in R:
            handles.add(q.E[e][2]['res'])
        if not handles:
            continue
        bad = []
        uses = 0
        for e in q.edges(lambda ev: ev['k'] == 'ext'):
            ev = q.E[e][2]
            c = cls_of(ev)
            if c not in prims.FS_CLASSES or c in READ_ONLY_USES:
                continue
            spec = prims.P.get(ev['path']) or {}
            roles = [r for r in ('dst', 'path', 'handle', 'src', 'dir') if r in spec]
            if c == 'content_write':
                roles = [r for r in roles if r != 'src']
            objs = [(r, arg_role(ev, r)) for r in roles] if roles else [('arg', a) for a in ev['args']]
            hit = []
            for r, o in objs:
                if o is None:
                    continue
                if r == 'src' and c in ('publish_excl', 'publish_replace'):
                    # a source *name* computed from the handle (e.g. /proc/self/fd/N) designates its inode
                    if _derived(o) & handles:
                        hit.append(o)
                elif strip_view(values.mut_root(obj_root(o))) in handles:
                    hit.append(o)
            if not hit:
                continue
            uses += 1
            if c in ('meta_atime',):
                continue
            if c == 'meta_times_h':
                mt = arg_role(ev, 'mtime')
                if mt is not None and VAL[mt][0:3] == ('agg', 'std::option::Option', 'v0'):
                    continue
            bad.append((e, c))
        ok = not bad
        out.append(inst('R15.4', name, ok, 'read-side handles (%d lookups) are only read, rewound, compared, returned or dropped' % len(R) if ok else
                        'a file obtained from the read side is the object of %s (%s)' % (bad[0][1], q.E[bad[0][0]][2]['path']),
                        path=witness_path(q, bad[0][0]) if bad else []))
    return out


def run(ctx):
    from runner import collect
    return collect(ctx, r15_1, r15_2, r15_3, r15_4)
