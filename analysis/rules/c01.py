"""C01 -- readers never observe partial, mixed or foreign content (DESIGN §5 C01)."""
import prims
import values
from values import VAL, show
from runner import inst
from rules.common import (tags_of, cls_of, witness_path, arg_role, obj_root, outcomes, is_temp_object, callback_kind, path_class,
                          unrewound, obj_handle_root)
from rules.c15 import stack_entries
from graph import path_brief

EXPLANATION = ('(R01.1) in every stacked-cache entry point every content write (io::copy destination, Write::*, the file lent to '
               'a populate callback) targets a temp file created by a tempfile constructor in the same operation, never a cached '
               'file, a lookup result or the caller\'s path; no open-for-write / create / truncate primitive exists anywhere in '
               'the crate; (R01.2) the only primitives whose created path is (directory + key) are rename and hard_link, with the '
               'caller\'s source as their source; (R01.3) for each temp file the stacked cache creates and inserts, the Ok outcome '
               'of its content write dominates the insert and no content write on it is reachable after the insert; (R01.4) the '
               'source handle of a copy into such a file is at offset 0 on every path (rewound after any consumer); (R01.5) such a file '
               'is written by exactly one writer (no second copy/callback into it without a truncate in between); (R01.6) distinct '
               'accepted key names denote distinct files: the validator returns its argument unchanged and only after the '
               'first-byte and whole-name separator tests (= R16.2/R16.3). Atomicity of '
               'rename/link/open is POSIX, trusted; interleavings are not enumerated.')
FLOORS = {'R01.1': 8, 'R01.2': 4, 'R01.3': 6, 'R01.4': 2, 'R01.5': 2, 'R01.6': 5, 'R01.7': 17}
FIXTURE_RULES = ['R01.1']

INPLACE = {'open_rw', 'truncate', 'ns_create_file'}


def r01_1(ctx):
    out = []
    # crate-wide: no in-place write primitive
    hits = []
    for k, calls in ctx.cg.ext_calls.items():
        for (np, cls, site) in calls:
            if cls in INPLACE:
                hits.append('%s %s [%s] in %s' % (site['span'], np, cls, ctx.B[k]['path']))
    out.append(inst('R01.1', 'crate|no open-for-write/create/truncate', not hits,
                    'no open_rw / create / truncate primitive in %d bodies' % len(ctx.B) if not hits else
                    'in-place write primitive present: %s' % hits[:3], path=hits))
    if not ctx.facts.get('crate', '').startswith('kismet'):
        return out
    for name, k in stack_entries(ctx):
        q = ctx.explore(k, mode='layer')
        W = q.prim_edges('content_write') + q.edges(lambda ev: ev['k'] == 'usercb' and callback_kind(ctx, q, ev) == 'populate')
        bad = []
        for e in W:
            ev = q.E[e][2]
            dst = arg_role(ev, 'handle') if ev['k'] == 'ext' else (ev['args'][0] if ev['args'] else None)
            root = obj_root(dst) if dst is not None else None
            if root is None or not is_temp_object(root):
                bad.append((e, 'destination %s is not a temp file created in this operation' % show(root, 3)[:100]))
            if ev['k'] == 'ext' and 'src' in prims.classify(ev['path'])[1]:
                sroot = obj_root(arg_role(ev, 'src'))
                if sroot is not None and is_temp_object(sroot):
                    bad.append((e, 'copy direction: the source is the temp file'))
        out.append(inst('R01.1', name, not bad, '%d content-write events, all into private temp files' % len(W) if not bad else
                        '%s: %s' % (q.E[bad[0][0]][2]['site'][2], bad[0][1]), path=witness_path(q, bad[0][0]) if bad else [],
                        nontrivial=bool(W)))
    return out


def r01_2(ctx):
    out = []
    m = ctx.cachedir_methods()
    for role in ('set', 'put'):
        q = ctx.explore(m[role])
        creators = {}
        for e in q.prim_edges({'publish_replace', 'publish_excl', 'ns_create_file', 'ns_create_dir', 'temp_create_named', 'open_rw'}):
            ev = q.E[e][2]
            c = cls_of(ev)
            r = prims.classify(ev['path'])[1]
            created = arg_role(ev, 'dst') if 'dst' in r else arg_role(ev, 'path') if 'path' in r else arg_role(ev, 'dir')
            pc = path_class(ctx, q, created)
            creators.setdefault((c, pc), e)
        for (c, pc), e in sorted(creators.items()):
            if pc.startswith('Base/'):
                ok = c in ('publish_replace', 'publish_excl') and pc == 'Base/Key'
                ev = q.E[e][2]
                if ok:
                    ok = path_class(ctx, q, arg_role(ev, 'src')) == 'Value'
                out.append(inst('R01.2', 'cachedir.%s|%s creates %s' % (role, c, pc), ok,
                                '%s %s creates the key-named entry atomically from the caller\'s source' % (ev['site'][2], ev['path']) if ok else
                                '%s %s creates a %s entry non-atomically or from a foreign source' % (ev['site'][2], ev['path'], pc),
                                path=[] if ok else witness_path(q, e)))
        want = 'publish_replace' if role == 'set' else 'publish_excl'
        out.append(inst('R01.2', 'cachedir.%s|publishes' % role, (want, 'Base/Key') in creators,
                        '%s publishes through %s' % (role, want)))
    return out


def r01_3(ctx):
    out = []
    ins = ctx.insert_methods()
    wt = ctx.role('write_trait')
    for name, k in stack_entries(ctx):
        q = ctx.explore(k, mode='layer')
        B = q.edges(lambda ev: ev['k'] == 'traitcall' and ev['trait'] == wt and ins.get(ev['method']) in ('set', 'put'))
        by_obj = {}
        for b in B:
            ev = q.E[b][2]
            by_obj.setdefault((ev['site'][:2], obj_root(ev['args'][2])), []).append(b)
        for (site, root), bs in sorted(by_obj.items(), key=lambda x: str(x[0])):
            if not is_temp_object(root):
                continue   # caller-provided file: content was written by the caller
            ev0 = q.E[bs[0]][2]
            label = '%s|%s@%s' % (name, ev0['method'], ctx.B[site[0]]['name'] or ctx.B[site[0]]['path'])

            def wpred(ev):
                if ev['k'] == 'ext' and cls_of(ev) == 'content_write':
                    return obj_root(arg_role(ev, 'handle')) == root
                if ev['k'] == 'usercb' and callback_kind(ctx, q, ev) == 'populate':
                    return bool(ev['args']) and obj_root(ev['args'][0]) == root
                return False
            W = q.edges(wpred)
            A = outcomes(q, W, 'Ok')
            bad = q.must_precede(A, bs) if W else bs
            out.append(inst('R01.3', label + '|written-before-insert', not bad,
                            'insert dominated by the Ok outcome of the content write (%d write sites)' % len(W) if not bad else
                            'the temp file can be inserted before its content write has completed successfully',
                            path=witness_path(q, bad[0], blocked=A) if bad else []))
            late = q.never_after(bs, W)
            out.append(inst('R01.3', label + '|no-write-after-insert', not late,
                            'no content write on the file is reachable after the insert' if not late else
                            'the file is written after it has been handed to the write cache',
                            path=witness_path(q, late[0][1]) if late else []))
    return out


def r01_4(ctx):
    """the source of a copy into a file that will be published is read from its start: no path on which the
    source handle was consumed (lent to a checker/judge, read, copied) reaches the copy without a rewind."""
    out = []
    for name, k in stack_entries(ctx):
        q = ctx.explore(k, mode='layer')
        copies = [e for e in q.prim_edges('content_write') if 'src' in prims.classify(q.E[e][2]['path'])[1]]
        by_src = {}
        for e in copies:
            by_src.setdefault(obj_handle_root(arg_role(q.E[e][2], 'src')), []).append(e)
        for root, es in by_src.items():
            until = {q.E[e][0] for e in es}
            bad, D, S = unrewound(ctx, q, root, until)
            # the copy itself consumes the source: exclude copy edges as dirtiers of their own start
            bad = [b for b in bad if b not in es]
            out.append(inst('R01.4', '%s|copy source rewound' % name, not bad,
                            'the copied handle is at offset 0 on every path to the copy (%d consuming sites, %d rewinds)' % (len(D), len(S)) if not bad else
                            'the hit is copied into the file to publish after having been consumed (%s) without a rewind: a truncated/empty '
                            'value would be published' % q.E[bad[0]][2]['site'][2],
                            path=witness_path(q, bad[0]) if bad else []))
    return out


def r01_5(ctx):
    """the file handed to the write cache holds the output of exactly one writer: once the populate callback or a copy
    has written into a temporary file, no second writer (another copy, another callback) writes into the same file
    unless it was truncated in between.  A recycled scratch file would publish one value overlaid on another."""
    out = []
    ins = ctx.insert_methods()
    wt = ctx.role('write_trait')
    for name, k in stack_entries(ctx):
        q = ctx.explore(k, mode='layer')
        B = q.edges(lambda ev: ev['k'] == 'traitcall' and ev['trait'] == wt and ins.get(ev['method']) in ('set', 'put'))
        roots = sorted({obj_root(q.E[b][2]['args'][2]) for b in B if is_temp_object(obj_root(q.E[b][2]['args'][2]))})
        bad = []
        nw = 0
        for root in roots:
            def wpred(ev):
                if ev['k'] == 'ext' and cls_of(ev) == 'content_write':
                    return obj_root(arg_role(ev, 'handle')) == root
                if ev['k'] == 'usercb' and callback_kind(ctx, q, ev) == 'populate':
                    return bool(ev['args']) and obj_root(ev['args'][0]) == root
                return False
            W = q.edges(wpred)
            nw += len(W)
            trunc = [e for e in q.prim_edges('truncate') if obj_root(arg_role(q.E[e][2], 'handle')) == root]
            # a successful truncate between the two writers makes the second one start from an empty file
            bad += q.never_after(W, W, blocked=outcomes(q, trunc, 'Ok'))
        if not roots:
            continue
        out.append(inst('R01.5', '%s|single writer per published file' % name, not bad,
                        'each inserted temporary file is written by exactly one writer on every path (%d files, %d write sites)' % (len(roots), nw) if not bad else
                        'a temporary file that is later inserted is written by %s after %s already wrote into it, without a truncate: '
                        'the published value can be one value overlaid on another' % (q.E[bad[0][1]][2].get('path', 'a callback'), q.E[bad[0][0]][2].get('path', 'a callback')),
                        path=witness_path(q, bad[0][1]) if bad else []))
    return out


def r01_6(ctx):
    """"never another key's data": two different accepted key names never denote the same file.  The file name used is
    the validator's Ok payload, so that payload must be the caller's name itself (not a normalised / re-parsed form of
    it, which could map "report/" and "report" to one file), and the name must have passed the whole-name separator
    scan (shared with R16.2/R16.3), so that it is a single path component."""
    from rules import c16
    out = []
    v = ctx.role('validator')
    q = ctx.explore(v, opaque='none')
    oks = q.terminals(lambda ev: ev['k'] == 'ret' and ev.get('variant') == 'Ok')
    bad = []
    for t in oks:
        pay = q.g.term[t].get('payload', [None])[0]
        tp = VAL[pay] if pay is not None else None
        if not (tp is not None and tp[0] == 'sym' and tp[1] == 'param' and tp[2] == '1'):
            bad.append(t)
    out.append(inst('R01.6', 'validator returns the name it was given', bool(oks) and not bad,
                    'every Ok exit of the validator carries its own argument, unchanged (%d exits)' % len(oks) if oks and not bad else
                    'the validator can return a name other than the one it was given (%s): distinct keys may be mapped to the same file'
                    % (show(q.g.term[bad[0]].get('payload', [None])[0], 3) if bad else 'no Ok exit')))
    for i in c16.r16_2_3(ctx):
        if i['rule'] == 'R16.3' or 'rejects' in i['key']:
            out.append(inst('R01.6', i['key'].split('|', 1)[1], i['ok'], i['detail'], path=i.get('path') or []))
    return out


def r01_7(ctx):
    """"when read to the end, exactly the complete bytes": a handle handed out at a non-zero offset yields a truncated or
    empty value, so every returned handle is rewound after whatever consumed it (= R19.2 over the stacked / read-only
    lookups, R19.4 in the lower-layer lookups)."""
    from rules import c19
    return [inst('R01.7', i['key'].split('|', 1)[1], i['ok'], i['detail'], path=i.get('path') or []) for i in c19.r19_2(ctx) + c19.r19_4(ctx)]


def run(ctx):
    from runner import collect
    return collect(ctx, r01_1, r01_2, r01_3, r01_4, r01_5, r01_6, r01_7)


def run_fixture(fctx):
    return {'R01.1': sum(1 for i in r01_1(fctx) if not i['ok'])}


THOROUGH_FLOORS = {'E01.3': 8}


def run_thorough(ctx):
    from runner import collect
    from rules import e2e
    return collect(ctx, e2e.e01)
