"""C12 -- shard placement is a fixed, process-independent function of the key hashes (DESIGN §5 C12)."""
import hashlib
import re
import prims
import values
from values import VAL, show
from runner import inst
from rules.common import tags_of, cls_of, witness_path, arg_role, path_class
from graph import path_brief

EXPLANATION = ('The property is a formula and three constants, decided against an oracle independent of the code (the formula in '
               'the property text and hashlib.sha256): (R12.1) the compiler-evaluated bytes of the two mixer constants equal '
               '(LE64(h[0..8])|1, LE64(h[8..16])) for h = SHA-256 of the two documented strings; (R12.2) with arithmetic kept '
               'precise, mix(x) normalises to the polynomial m*x + a over Z/2^64, reduce(x, n) is (u128(n)*u128(x)) >> 64, and map = '
               'reduce(mix(.), .); (R12.3) the placement function\'s first id is map(PRIMARY, key.hash, n), its second is derived from '
               'map(SECONDARY, key.secondary_hash, n), n being one shard-count field; (R12.4) the fix-up\'s three paths, with branch '
               'predicates decided over orderings, are base != other -> other; base = other and other+1 < n -> other+1; otherwise 0; '
               '(R12.5) the directory name is format!(".kismet_{:04x}") of the shard id (zero fill, width 4, lower hex) pushed onto '
               'the base directory; (R12.6) the load-ordering function returns a permutation of its input pair and lookups probe '
               'component 0 of the unsorted pair first; (R12.7) the constructor clamps n < 2 to 2.')
FLOORS = {'R12.1': 2, 'R12.2': 3, 'R12.3': 3, 'R12.4': 3, 'R12.5': 3, 'R12.6': 4, 'R12.7': 1, 'R12.8': 4}

MUL = ('core::num::wrapping_mul',)
ADD = ('core::num::wrapping_add',)


def poly(v):
    """canonical polynomial over Z/2^64: {sorted tuple of atom ids: coeff}; None if not polynomial."""
    t = VAL[v]
    if t[0] == 'int':
        c = int(t[1]) % (1 << 64)
        return {(): c} if c else {}
    if t[0] == 'sym' and t[1] == 'app' and t[2] in MUL + ADD and len(t) == 6:
        a, b = poly(t[4]), poly(t[5])
        if a is None or b is None:
            return None
        return pmul(a, b) if t[2] in MUL else padd(a, b)
    if t[0] == 'sym' and t[1] == 'bin' and t[2] in ('Mul', 'Add'):
        a, b = poly(t[3]), poly(t[4])
        if a is None or b is None:
            return None
        return pmul(a, b) if t[2] == 'Mul' else padd(a, b)
    if t[0] == 'sym' and t[1] in ('app', 'bin') and (t[2] in ('Sub', 'core::num::wrapping_sub', 'Shl', 'Shr', 'Rem', 'Div', 'BitAnd', 'BitOr', 'BitXor')):
        return None
    return {(v,): 1}


def padd(a, b):
    r = dict(a)
    for k, c in b.items():
        r[k] = (r.get(k, 0) + c) % (1 << 64)
        if not r[k]:
            del r[k]
    return r


def pmul(a, b):
    r = {}
    for k1, c1 in a.items():
        for k2, c2 in b.items():
            k = tuple(sorted(k1 + k2))
            r[k] = (r.get(k, 0) + c1 * c2) % (1 << 64)
            if not r[k]:
                del r[k]
    return r


def strip_cast(v, want=None):
    t = VAL[v]
    if t[0] == 'sym' and t[1] == 'cast':
        return t[2], t[3]
    return v, None


def match_reduce(v):
    """cast((cast(A as u128) * cast(B as u128)) >> 64) -> (A, B) ; None otherwise."""
    inner, ty = strip_cast(v)
    t = VAL[inner]
    if not (t[0] == 'sym' and t[1] == 'bin' and t[2] == 'Shr' and VAL[t[4]] == ('int', '64')):
        return None
    m = VAL[t[3]]
    if not (m[0] == 'sym' and ((m[1] == 'bin' and m[2] == 'Mul'))):
        return None
    a, ta = strip_cast(m[3])
    b, tb = strip_cast(m[4])
    if ta != 'u128' or tb != 'u128':
        return None
    return a, b


def is_param(v, idx=None):
    t = VAL[v]
    return t[0] == 'sym' and t[1] == 'param' and (idx is None or int(t[2]) == idx)


def self_field(v):
    """field index when v is a field of the receiver (self.* or self by value / a constant's field)."""
    t = VAL[v]
    if t[0] == 'sym' and t[1] == 'fld':
        return int(t[3][1:]), t[2]
    return None, None


def mixer_type(ctx):
    """the local struct of two u64 fields whose constants drive placement."""
    for path, a in ctx.facts['adts'].items():
        t = ctx.T[a['ty']]
        if t.get('is_enum') or not t.get('variants'):
            continue
        fs = t['variants'][0]['fields']
        if len(fs) == 2 and all(ctx.T[f['ty']]['s'] == 'u64' for f in fs):
            return path, t
    from ctx import RoleError
    raise RoleError('mixer struct (two u64 fields) not found')


def method_of(ctx, adt_path, name):
    for k, b in ctx.B.items():
        if b['name'] == name and b.get('impl_self_ty') is not None and ctx.T[b['impl_self_ty']].get('adt') == adt_path and not b.get('impl_trait'):
            return k
    return None


def expected_mixer(s):
    h = hashlib.sha256(s).digest()
    m = int.from_bytes(h[0:8], 'little') | 1
    a = int.from_bytes(h[8:16], 'little')
    return m.to_bytes(8, 'little').hex() + a.to_bytes(8, 'little').hex()


def mixer_fields(ctx):
    """(multiplier field idx, addend field idx) from the constructor that forces the multiplier odd."""
    mp, mt = mixer_type(ctx)
    for k, b in ctx.B.items():
        if ctx.T[b['locals'][0]['ty']].get('adt') == mp and b['arg_count'] == 2 and all(ctx.T[b['locals'][i]['ty']]['s'] == 'u64' for i in (1, 2)):
            q = ctx.explore(k, opaque='none', precise=True, tag='c12')
            for t in q.terminals(lambda ev: ev['k'] == 'ret'):
                v = q.g.term[t]['val']
                if VAL[v][0] == 'agg':
                    fs = VAL[v][3:]
                    odd = [i for i, f in enumerate(fs) if VAL[f][0] == 'sym' and VAL[f][1] == 'bin' and VAL[f][2] == 'BitOr' and
                           ('int', '1') in (VAL[VAL[f][3]], VAL[VAL[f][4]])]
                    if len(odd) == 1:
                        return odd[0], 1 - odd[0], k
    from ctx import RoleError
    raise RoleError('mixer constructor forcing an odd multiplier not found')


def r12_1(ctx):
    out = []
    mp, mt = mixer_type(ctx)
    consts = {n: c for n, c in ctx.facts['consts'].items() if c['ty'] == mp and 'bytes' in c['val']}
    want = {'primary': expected_mixer(b'kismet: primary shard mixer'), 'secondary': expected_mixer(b'kismet: secondary shard mixer')}
    mi, ai, _ = mixer_fields(ctx)
    got = {}
    for n, c in consts.items():
        b = c['val']['bytes']
        # memory layout = declaration order for two u64 fields; normalise to (multiplier, addend)
        f = [b[0:16], b[16:32]]
        norm = f[mi] + f[ai]
        for role, w in want.items():
            if norm == w:
                got[role] = n
    for role in ('primary', 'secondary'):
        out.append(inst('R12.1', role + ' mixer', role in got,
                        'constant %s = (LE64(h[0..8])|1, LE64(h[8..16])), h = SHA-256("kismet: %s shard mixer")' % (got.get(role), role) if role in got else
                        'no mixer constant has the value derived from SHA-256("kismet: %s shard mixer") (constants: %s)' % (role, {n: c['val']['bytes'] for n, c in consts.items()})))
    ctx._c12_mixers = got
    return out


def r12_2(ctx):
    out = []
    mp, mt = mixer_type(ctx)
    mi, ai, _ = mixer_fields(ctx)
    # mix
    k_mix = method_of(ctx, mp, 'mix')
    k_map = method_of(ctx, mp, 'map')
    cands = [k for k, b in ctx.B.items() if b.get('impl_self_ty') is not None and ctx.T[b['impl_self_ty']].get('adt') == mp and not b.get('impl_trait')]
    mix_ok = False
    for k in cands:
        b = ctx.B[k]
        if b['arg_count'] == 2 and ctx.T[b['locals'][0]['ty']]['s'] == 'u64':
            q = ctx.explore(k, opaque='none', precise=True, tag='c12')
            rets = q.terminals(lambda ev: ev['k'] == 'ret')
            if len(rets) != 1:
                continue
            p = poly(q.g.term[rets[0]]['val'])
            if p is None:
                continue
            ok = len(p) == 2
            lin = [mono for mono in p if len(mono) == 2]
            const = [mono for mono in p if len(mono) == 1]
            if ok and len(lin) == 1 and len(const) == 1 and p[lin[0]] == 1 and p[const[0]] == 1:
                atoms = lin[0]
                x = [a for a in atoms if is_param(a, 2)]
                m = [a for a in atoms if self_field(a)[0] == mi]
                a_ = self_field(const[0][0])[0] == ai
                mix_ok = bool(x) and bool(m) and a_
                ctx._c12_mix = k
            out.append(inst('R12.2', 'mix', mix_ok, 'mix(x) = multiplier * x + addend over Z/2^64 (polynomial %s)' % {tuple(show(a, 2) for a in mo): c for mo, c in p.items()}
                            if mix_ok else 'mix is not multiplier*x + addend (wrapping): normal form %s' % {tuple(show(a, 2) for a in mo): c for mo, c in p.items()}))
            break
    if not any(i['key'].endswith('|mix') for i in out):
        out.append(inst('R12.2', 'mix', False, 'no mixing function u64 -> u64 whose body is a polynomial found'))
    # reduce
    red_ok = False
    for k, b in ctx.B.items():
        if b['def_kind'] == 'Fn' and b['arg_count'] == 2 and ctx.T[b['locals'][0]['ty']]['s'] == 'usize' and \
                {ctx.T[b['locals'][1]['ty']]['s'], ctx.T[b['locals'][2]['ty']]['s']} == {'u64', 'usize'} and k in ctx.cg.pure_bodies():
            q = ctx.explore(k, opaque='none', precise=True, tag='c12')
            rets = q.terminals(lambda ev: ev['k'] == 'ret')
            if len(rets) == 1:
                mr = match_reduce(q.g.term[rets[0]]['val'])
                red_ok = mr is not None and is_param(mr[0]) and is_param(mr[1]) and mr[0] != mr[1]
                out.append(inst('R12.2', 'reduce', red_ok, 'reduce(x, n) = (u128(n) * u128(x)) >> 64' if red_ok else
                                'range reduction is not the 128-bit multiply-high: %s' % show(q.g.term[rets[0]]['val'], 6)))
                break
    if not any(i['key'].endswith('|reduce') for i in out):
        out.append(inst('R12.2', 'reduce', False, 'no range-reduction function (u64, usize) -> usize found'))
    # map = reduce(mix(value), range)
    map_ok = False
    for k in cands:
        b = ctx.B[k]
        if b['arg_count'] == 3 and ctx.T[b['locals'][0]['ty']]['s'] == 'usize':
            q = ctx.explore(k, opaque='none', precise=True, tag='c12')
            rets = q.terminals(lambda ev: ev['k'] == 'ret')
            if len(rets) == 1:
                mr = match_reduce(q.g.term[rets[0]]['val'])
                if mr is not None:
                    rng = [x for x in mr if is_param(x)]
                    mixed = [x for x in mr if not is_param(x)]
                    if len(rng) == 1 and len(mixed) == 1:
                        p = poly(mixed[0])
                        map_ok = p is not None and len(p) == 2 and any(len(mo) == 2 and any(is_param(a, 2) for a in mo) for mo in p)
            out.append(inst('R12.2', 'map', map_ok, 'map(x, n) = reduce(mix(x), n)' if map_ok else 'map is not reduce(mix(value), range)'))
            break
    return out


def is_pair_ty(ctx, tyid):
    """(usize, usize), or a crate-local struct of exactly two usize fields (a named pair)"""
    t = ctx.T[tyid]
    if t['s'] == '(usize, usize)':
        return True
    if t['k'] == 'adt' and t.get('local') and not t.get('is_enum') and t.get('variants'):
        fs = t['variants'][0]['fields']
        return len(fs) == 2 and all(ctx.T[f['ty']]['s'] == 'usize' for f in fs)
    return False


def is_pair_val(ctx, a):
    t = VAL[a]
    if t[0] != 'agg' or len(t) != 5:
        return False
    return t[1] == 'tuple' or any(x.get('adt') == t[1] and x.get('local') and is_pair_ty(ctx, i) for i, x in enumerate(ctx.T) if x.get('adt') == t[1])


def placement_fn(ctx):
    """pure method returning a pair of shard ids and taking a Key by value."""
    for k, b in ctx.B.items():
        if b['arg_count'] == 2 and is_pair_ty(ctx, b['locals'][0]['ty']) and ctx.T[b['locals'][2]['ty']].get('adt') == 'Key':
            return k
    from ctx import RoleError
    raise RoleError('placement function (self, Key) -> (usize, usize) not found')


def decode_map(ctx, v):
    """v = reduce(n, mix_X(h)) -> (n term, const name X, hash atom) or None"""
    mi, ai, _ = mixer_fields(ctx)
    mr = match_reduce(v)
    if mr is None:
        return None
    for n, mixed in (mr, mr[::-1]):
        p = poly(mixed)
        if p is None or len(p) != 2:
            continue
        lin = [mo for mo in p if len(mo) == 2]
        const = [mo for mo in p if len(mo) == 1]
        if len(lin) != 1 or len(const) != 1:
            continue
        cm = [a for a in lin[0] if self_field(a)[0] == mi and VAL[self_field(a)[1]][1] == 'const']
        h = [a for a in lin[0] if a not in cm]
        ca = const[0][0]
        if cm and h and self_field(ca)[0] == ai and self_field(ca)[1] == self_field(cm[0])[1]:
            return n, VAL[self_field(cm[0])[1]][2], h[0]
    return None


def r12_3(ctx):
    out = []
    if not hasattr(ctx, '_c12_mixers'):
        r12_1(ctx)
    got = ctx._c12_mixers
    key_t = ctx.adt('Key')
    fi = {f['name']: i for i, f in enumerate(key_t['variants'][0]['fields'])}
    k = placement_fn(ctx)
    q = ctx.explore(k, opaque='none', precise=True, tag='c12')
    rets = q.terminals(lambda ev: ev['k'] == 'ret')
    firsts = set()
    seconds = set()
    ns = set()
    for t in rets:
        v = q.g.term[t]['val']
        if VAL[v][0] != 'agg':
            continue
        e0, e1 = VAL[v][3], VAL[v][4]
        d0 = decode_map(ctx, e0)
        firsts.add((d0[1], self_field(d0[2])[0]) if d0 else None)
        if d0:
            ns.add(d0[0])
        d1 = decode_map(ctx, e1)
        if d1:
            seconds.add((d1[1], self_field(d1[2])[0]))
            ns.add(d1[0])
    ok0 = firsts == {(got.get('primary'), fi.get('hash'))}
    out.append(inst('R12.3', 'first id', ok0, 'first id = map(PRIMARY mixer, key.hash, n)' if ok0 else
                    'first shard id is not map(primary mixer, key.hash, n): %s' % sorted(firsts, key=str)))
    ok1 = seconds == {(got.get('secondary'), fi.get('secondary_hash'))}
    out.append(inst('R12.3', 'second id', ok1, 'second id derives from map(SECONDARY mixer, key.secondary_hash, n)' if ok1 else
                    'second shard id is not derived from map(secondary mixer, key.secondary_hash, n): %s' % sorted(seconds, key=str)))
    okn = len(ns) == 1 and self_field(next(iter(ns)))[0] is not None
    ctx._c12_nfield = self_field(next(iter(ns)))[0] if okn else None
    out.append(inst('R12.3', 'shard count', okn, 'both ids are scaled by the same shard-count field (f%s)' % ctx._c12_nfield if okn else
                    'the two ids are not scaled by one shard-count field'))
    return out


def cmp_table(ev, left_pred, right_pred):
    """truth table {-1,0,1 -> bool} of a branch event comparing L with R (either operand order)."""
    t = VAL[ev['val']]
    if not (t[0] == 'sym' and t[1] == 'cmp'):
        return None
    op, a, b = t[2], t[3], t[4]
    rel = {'Lt': lambda o: o < 0, 'Le': lambda o: o <= 0, 'Gt': lambda o: o > 0, 'Ge': lambda o: o >= 0, 'Eq': lambda o: o == 0, 'Ne': lambda o: o != 0}[op]
    if left_pred(a) and right_pred(b):
        return {o: rel(o) == bool(ev['eq']) for o in (-1, 0, 1)}
    if left_pred(b) and right_pred(a):
        return {o: rel(-o) == bool(ev['eq']) for o in (-1, 0, 1)}
    return None


def all_paths(q, limit=64):
    """every entry->terminal path of a small acyclic graph, as lists of events."""
    out = []

    def go(n, acc):
        if len(out) > limit:
            return
        if n in q.g.term:
            out.append((n, list(acc)))
            return
        for ei in q.succ.get(n, ()):
            a, b, ev = q.E[ei]
            go(b, acc + ([ev] if ev is not None else []))
    go(q.g.entry, [])
    return out


def r12_4(ctx):
    out = []
    # the fix-up: pure method (self, usize, usize) -> usize
    cands = [k for k, b in ctx.B.items() if b['arg_count'] == 3 and ctx.T[b['locals'][0]['ty']]['s'] == 'usize' and
             all(ctx.T[b['locals'][i]['ty']]['s'] == 'usize' for i in (2, 3)) and k in ctx.cg.pure_bodies()]
    pk = placement_fn(ctx)
    cands = [k for k in cands if k in ctx.cg.local_edges.get(pk, ())]
    if len(cands) != 1:
        return [inst('R12.4', 'fix-up', False, 'distinctness fix-up function not found (%s)' % cands)]
    q = ctx.explore(cands[0], opaque='none', precise=True, tag='c12')
    paths = [(n, evs) for n, evs in all_paths(q) if q.g.term[n]['k'] == 'ret']
    is_base = lambda v: is_param(v, 2)
    is_other = lambda v: is_param(v, 3)

    def is_other1(v):
        t = VAL[v]
        return t[0] == 'sym' and t[1] == 'bin' and t[2] == 'Add' and {VAL[t[3]], VAL[t[4]]} == {VAL[[x for x in (t[3], t[4]) if is_param(x, 3)][0]] if any(is_param(x, 3) for x in (t[3], t[4])) else None, ('int', '1')}
    is_n = lambda v: self_field(v)[0] is not None
    found = {'differ': False, 'next': False, 'wrap': False}
    bad = []
    for n, evs in paths:
        ret = q.g.term[n]['val']
        conds = [e for e in evs if e['k'] == 'branch']
        tabs_bo = [cmp_table(e, is_base, is_other) for e in conds]
        tabs_on = [cmp_table(e, is_other1, is_n) for e in conds]
        bo = [t for t in tabs_bo if t]
        on = [t for t in tabs_on if t]
        if bo == [{-1: True, 0: False, 1: True}] and not on:
            if is_other(ret):
                found['differ'] = True
            else:
                bad.append('base != other returns %s' % show(ret, 3))
        elif bo == [{-1: False, 0: True, 1: False}] and on == [{-1: True, 0: False, 1: False}]:
            if is_other1(ret):
                found['next'] = True
            else:
                bad.append('base == other and other+1 < n returns %s' % show(ret, 3))
        elif bo == [{-1: False, 0: True, 1: False}] and on == [{-1: False, 0: True, 1: True}]:
            if VAL[ret] == ('int', '0'):
                found['wrap'] = True
            else:
                bad.append('base == other and other+1 >= n returns %s' % show(ret, 3))
        else:
            bad.append('unexpected path: conditions %s -> %s' % ([show(e['val'], 3) + ('==%s' % e.get('eq')) for e in conds], show(ret, 3)))
    for kname, desc in (('differ', 'base != other -> other'), ('next', 'base = other, other+1 < n -> other+1'), ('wrap', 'otherwise -> 0')):
        out.append(inst('R12.4', desc, found[kname] and not bad, desc if found[kname] and not bad else 'fix-up decision table differs: %s' % (bad or 'case missing')))
    # n is the same shard-count field as in placement
    return out


def parse_format(snippet):
    m = re.search(r'"((?:[^"\\]|\\.)*)"', snippet)
    if not m:
        return None
    lit = m.group(1)
    ph = re.findall(r'\{([^{}]*)\}', lit.replace('{{', '').replace('}}', ''))
    prefix = lit.split('{', 1)[0]
    suffix = lit.rsplit('}', 1)[1] if '}' in lit else ''
    if len(ph) != 1:
        return {'prefix': prefix, 'n': len(ph)}
    spec = ph[0].split(':', 1)[1] if ':' in ph[0] else ''
    mm = re.match(r'^(?:(.)?([<^>]))?([+-])?(#)?(0)?(\d+)?(?:\.(\d+))?([a-zA-Z?]*)$', spec)
    if not mm:
        return {'prefix': prefix, 'n': 1, 'spec': spec}
    fill, align, sign, alt, zero, width, prec, ty = mm.groups()
    zero_fill = bool(zero) or (fill == '0' and align == '>')
    return {'prefix': prefix, 'suffix': suffix, 'n': 1, 'zero_fill': zero_fill, 'width': int(width) if width else 0, 'type': ty, 'alt': bool(alt)}


def r12_5(ctx):
    out = []
    # the naming function: pure fn(usize) -> String
    nk = [k for k, b in ctx.B.items() if b['def_kind'] in ('Fn', 'AssocFn') and b['arg_count'] == 1 and ctx.T[b['locals'][1]['ty']]['s'] == 'usize'
          and ctx.T[b['locals'][0]['ty']]['s'] == 'std::string::String']
    if len(nk) != 1:
        return [inst('R12.5', 'name format', False, 'shard-naming function fn(usize) -> String not found (%s)' % nk)]
    q = ctx.explore(nk[0], opaque='none', precise=True, tag='c12')
    fm = q.edges(lambda ev: ev['k'] == 'ext' and ev.get('macro_snippet'))
    spec = parse_format(q.E[fm[0]][2]['macro_snippet']) if fm else None
    ok = bool(spec) and spec.get('n') == 1 and spec.get('prefix') == '.kismet_' and spec.get('suffix') == '' and spec.get('zero_fill') and \
        spec.get('width') == 4 and spec.get('type') == 'x' and not spec.get('alt')
    out.append(inst('R12.5', 'name format', bool(ok), 'directory name = ".kismet_" + shard id, zero filled, width 4, lower hex' if ok else
                    'shard directory name format is %s (%s)' % (spec, q.E[fm[0]][2]['macro_snippet'] if fm else 'no format! call')))
    hexes = q.edges(lambda ev: ev['k'] == 'ext' and ev['path'].startswith('core::fmt::rt::Argument::new_'))
    okh = len(hexes) == 1 and q.E[hexes[0]][2]['path'].endswith('new_lower_hex') and is_param(q.E[hexes[0]][2]['args'][0], 1)
    out.append(inst('R12.5', 'rendered argument', okh, 'the one formatted argument is the shard id, rendered LowerHex' if okh else
                    'the formatted argument is not the shard id in lower hex (%s)' % [q.E[e][2]['path'] for e in hexes]))
    # shard paths: in the public operations (shard constructors looked through), every directory a shard object carries
    # is <the cache's own base-directory field> + <naming function>(id), with id the shard object's own id
    name_app = 'local::' + ctx.B[nk[0]]['path']
    tr = ctx.traits[ctx.role('cachedir_trait')]
    impl_tys = {imp['self_ty_s'] for imp in tr['impls']}
    ctors = {k for k in ctx.pure if ctx.T[ctx.B[k]['locals'][0]['ty']]['s'] in impl_tys}
    n_ok = 0
    bad = []

    def self_fld(d):
        t = VAL[d]
        while t[0] == 'sym' and t[1] == 'app' and t[2].rsplit('::', 1)[-1] in ('clone', 'to_path_buf', 'to_owned', 'into_owned', 'as_ref', 'deref', 'as_path') and len(t) > 4:
            d = t[4]
            t = VAL[d]
        return t[0] == 'sym' and t[1] == 'fld' and any(is_param(x, 1) for x in values.subs(d))
    for p in ('sharded::Cache::get', 'sharded::Cache::touch', 'sharded::Cache::set', 'sharded::Cache::put', 'sharded::Cache::temp_dir'):
        q2 = ctx.explore(ctx.key_of(p), opaque=set(ctx.pure) - ctors, tag='c12ctor')
        seen = set()
        for e in q2.edges(lambda ev: ev['k'] == 'ext' and prims.classify_event(ev)[0] in prims.FS_CLASSES):
            for a_ in q2.E[e][2]['args']:
                if a_ is None:
                    continue
                for s_ in values.subs(a_):
                    ts = VAL[s_]
                    if s_ in seen or not (ts[0] == 'sym' and ts[1] == 'app' and ts[2] == 'path.push' and len(ts) > 5):
                        continue
                    d, leaf = ts[4], ts[5]
                    lf = leaf
                    while VAL[lf][0] == 'sym' and VAL[lf][1] == 'app' and VAL[lf][2] != name_app and len(VAL[lf]) == 5 and \
                            VAL[lf][2].rsplit('::', 1)[-1] in ('as_ref', 'deref', 'as_str', 'as_path', 'borrow', 'as_os_str', 'new', 'from', 'into'):
                        lf = VAL[lf][4]
                    names = [lf] if (VAL[lf][0] == 'sym' and VAL[lf][1] == 'app' and VAL[lf][2] == name_app) else []
                    if not names:
                        continue
                    seen.add(s_)
                    if self_fld(d) and len(names) == 1:
                        n_ok += 1
                    else:
                        bad.append('%s: %s' % (p, show(s_, 3)[:120]))
                # a shard object's recorded id is the id its directory was named after
                for s_ in values.subs(a_):
                    ts = VAL[s_]
                    if ts[0] == 'agg' and ts[1] in impl_tys and s_ not in seen:
                        seen.add(s_)
                        ids = [f for f in ts[3:] if f is not None and ctx is not None and VAL[f][0] == 'sym' and VAL[f][1] == 'app' and not VAL[f][2].startswith('path.')]
                        named = [VAL[x][4] for f in ts[3:] if f is not None for x in values.subs(f) if VAL[x][0] == 'sym' and VAL[x][1] == 'app' and VAL[x][2] == name_app and len(VAL[x]) > 4]
                        if named and ids and not any(n in ids for n in named):
                            bad.append('%s: shard object %s carries an id different from the one its directory is named after' % (p, show(s_, 2)[:100]))
    out.append(inst('R12.5', 'shard path', n_ok >= 2 and not bad, 'every shard directory = the cache\'s base-directory field + name(id), id = the shard object\'s own id (%d path shapes)' % n_ok
                    if n_ok >= 2 and not bad else 'a shard directory is not <base dir>/<formatted id>: %s' % (bad[:3] or 'no shard path found')))
    return out


def r12_6(ctx):
    out = []
    ks = [k for k, b in ctx.B.items() if b['arg_count'] == 2 and is_pair_ty(ctx, b['locals'][0]['ty']) and is_pair_ty(ctx, b['locals'][2]['ty'])]
    ok = len(ks) == 1
    if ok:
        q = ctx.explore(ks[0], opaque='none', precise=True, tag='c12')
        rets = q.terminals(lambda ev: ev['k'] == 'ret')
        seen = set()
        for t in rets:
            v = q.g.term[t]['val']
            if is_param(v, 2):
                seen.add(('f0', 'f1'))      # the pair handed back as it came
                continue
            if VAL[v][0] != 'agg':
                ok = False
                continue
            comp = []
            for f in VAL[v][3:]:
                tf = VAL[f]
                if tf[0] == 'sym' and tf[1] == 'fld' and is_param(tf[2], 2):
                    comp.append(tf[3])
                else:
                    ok = False
            seen.add(tuple(comp))
        ok = ok and seen <= {('f0', 'f1'), ('f1', 'f0')} and bool(seen)
    out.append(inst('R12.6', 'load ordering is a permutation', ok, 'the load-ordering function returns its two inputs, possibly swapped' if ok else
                    'the load-ordering function does not return a permutation of the pair it was given'))
    from rules import c11
    for i in c11.r11_3(ctx):
        if 'candidates' in i['key']:
            out.append(inst('R12.6', 'probe order|' + i['key'].split('|')[1], i['ok'], i['detail']))
    # ... and that pair is the placement function's own (unsorted) result: its producing call takes the key itself
    for p, cls in (('sharded::Cache::get', {'open_ro', 'open_rw'}), ('sharded::Cache::touch', {'meta_atime', 'meta_times', 'meta_times_h'})):
        q = ctx.explore(ctx.key_of(p))
        body = ctx.B[ctx.key_of(p)]
        key_params = {i for i in range(1, body['arg_count'] + 1) if ctx.T[body['locals'][i]['ty']].get('adt') == 'Key'}
        good = True
        n = 0
        for e in q.prim_edges(cls):
            for (s_, c, i) in c11.shard_ids_in(arg_role(q.E[e][2], 'path')):
                n += 1
                args = c[2]
                direct_key = any(VAL[a][0] == 'sym' and VAL[a][1] == 'param' and int(VAL[a][2]) in key_params for a in args)
                pair_arg = any(is_pair_val(ctx, a) for a in args)
                if not direct_key or pair_arg:
                    good = False
        out.append(inst('R12.6', 'unsorted pair|' + p, good and n > 0, 'lookup candidates come straight from the placement function of the key (load estimates not consulted)' if good and n else
                        'lookup candidates pass through a function of the pair (e.g. load ordering): probe order depends on in-memory estimates'))
    return out


def r12_7(ctx):
    out = []
    if not hasattr(ctx, '_c12_nfield'):
        r12_3(ctx)
    nf = ctx._c12_nfield
    k = ctx.key_of('sharded::Cache::new')
    q = ctx.explore(k, precise=True, tag='c12p')
    body = ctx.B[k]
    ok = nf is not None
    seen = []
    for n, evs in all_paths(q, limit=256):
        if q.g.term[n]['k'] != 'ret':
            continue
        v = q.g.term[n]['val']
        if VAL[v][0] != 'agg':
            ok = False
            continue
        fv = VAL[v][3 + nf] if nf is not None and 3 + nf < len(VAL[v]) else None
        conds = [cmp_table(e, lambda x: is_param(x), lambda x: VAL[x] == ('int', '2')) for e in evs if e['k'] == 'branch']
        conds = [c for c in conds if c]
        lt2 = conds and conds[0] == {-1: True, 0: False, 1: False}
        ge2 = conds and conds[0] == {-1: False, 0: True, 1: True}
        if lt2:
            good = fv is not None and VAL[fv] == ('int', '2')
        elif ge2:
            good = fv is not None and is_param(fv)
        else:
            good = False
        seen.append((('n<2' if lt2 else 'n>=2' if ge2 else '?'), show(fv, 2)))
        ok = ok and good
    out.append(inst('R12.7', 'fewer than 2 shards are treated as 2', ok and bool(seen), 'n < 2 => 2, otherwise n (paths %s)' % sorted(set(seen)) if ok and seen else
                    'the constructor does not clamp the shard count to at least 2: %s' % sorted(set(seen))))
    return out


def r12_8(ctx):
    """lookups consult *both* candidates: a miss (get) or false (touch) in the first leads to the same operation on the
    second, so an entry a peer placed in the secondary shard is found (shared with R11.3)."""
    from rules import c11
    return [inst('R12.8', i['key'].split('|', 1)[1], i['ok'], i['detail'], path=i.get('path') or []) for i in c11.r11_3(ctx)]


def run(ctx):
    from runner import collect
    return collect(ctx, r12_1, r12_2, r12_3, r12_4, r12_5, r12_6, r12_7, r12_8)
