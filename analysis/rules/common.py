"""Shared helpers for the rule modules."""
import prims
import values
from ctx import Tags, RoleError
from graph import path_brief, ev_brief
from values import VAL, show


def tags_of(ctx):
    if not hasattr(ctx, '_tags'):
        ctx._tags = Tags(ctx)
    return ctx._tags


def cls_of(ev):
    if ev is None or ev['k'] != 'ext':
        return None
    return prims.classify_event(ev)[0]


def roles_of(ev):
    return prims.classify(ev['path'])[1]


def arg_role(ev, role):
    r = roles_of(ev)
    i = r.get(role)
    if i is None or i >= len(ev['args']):
        return None
    return ev['args'][i]


def is_path_param(ctx, q, v):
    """v is an entry parameter whose declared type is a path (the caller-supplied source file)."""
    if v is None:
        return False
    t = VAL[v]
    if t[0] == 'sym' and t[1] == 'param':
        body = ctx.B[q.interp.entry_key]
        ty = ctx.T[body['locals'][int(t[2])]['ty']]['s']
        return 'Path' in ty or 'AsRef' in ty
    return False


def strip_view(v):
    """Look through payload/handle projections: x.v0.f0 -> x (used to find the producing call)."""
    t = VAL[v]
    while t[0] == 'sym' and t[1] in ('vf', 'fld'):
        v = t[2]
        t = VAL[v]
    return v


def path_class(ctx, q, v):
    """Classify a path/handle operand of a primitive (DESIGN R16.4)."""
    T = tags_of(ctx)
    if v is None:
        return 'Unknown'
    if is_path_param(ctx, q, v):
        return 'Value'
    t = VAL[v]
    # handles: payload of an open/tempfile call
    base = strip_view(v)
    tb = VAL[base]
    if base != v and tb[0] == 'sym' and tb[1] == 'app':
        c = prims.classify(tb[2])[0]
        if c in ('open_ro', 'open_rw') and len(tb) > 4:
            pi = 4 + prims.classify(tb[2])[1].get('path', 0)
            return 'Handle(%s)' % path_class(ctx, q, tb[pi] if pi < len(tb) else tb[4])
        if c in ('temp_create_named', 'temp_create_anon', 'temp_create_named_default'):
            return 'TempFile'
        if tb[2] == 'std::path::Path::parent' and len(tb) > 4:
            return 'parent(%s)' % path_class(ctx, q, tb[4])
    if t[0] == 'sym' and t[1] == 'mut':
        return path_class(ctx, q, t[2])
    if t[0] == 'sym' and t[1] == 'app' and t[2] == 'std::path::Path::parent' and len(t) > 4:
        return 'parent(%s)' % path_class(ctx, q, t[4])
    if tb[0] == 'sym' and tb[1] == 'app' and (tb[2].endswith('Iterator>::next') or tb[2] == 'std::iter::Iterator::next') and len(tb) > 4:
        it = obj_root(tb[4])
        ti = VAL[it]
        if ti[0] == 'sym' and ti[1] == 'app' and prims.classify(ti[2])[0] == 'list_dir' and len(ti) > 4:
            return 'Entry(%s)' % path_class(ctx, q, ti[4])
    d, leaf = T.split_path(v)
    if leaf is not None:
        dt = T.tags(d)
        lt = T.tags(leaf)
        dk = 'Base' if 'BaseDir' in dt and 'TempDir' not in dt else 'Temp' if 'TempDir' in dt else \
            'Value' if is_path_param(ctx, q, d) else 'Dir?'
        # the directory part must be exactly an accessor result (no further pushes hidden in it)
        dd, dleaf = T.split_path(d)
        if dleaf is not None:
            dk = 'Nested(%s)' % path_class(ctx, q, d)
        lv = VAL[leaf]
        if lv[0] == 'sym' and lv[1] == 'vf' and 'KeyNameValidated' in lt and VAL[lv[2]][2] == T.validator_path:
            lk = 'Key'
        elif lv[0] == 'sym' and lv[1] == 'app' and lv[2] == 'std::fs::DirEntry::file_name':
            lk = 'Listed'
        elif lv[0] == 'str':
            lk = 'Const:' + lv[1]
        else:
            lk = 'Leaf?[%s]' % ','.join(sorted(lt))
        return '%s/%s' % (dk, lk)
    tg = T.tags(v)
    if t[0] == 'sym' and t[1] == 'app':
        if t[2] in T.by_role.get('dir', ()):
            return 'Base'
        if t[2] in T.by_role.get('temp', ()):
            return 'Temp'
    return 'Other[%s]' % ','.join(sorted(tg))


def witness_path(q, edge, blocked=()):
    w = q.witness(q.E[edge][0], blocked=blocked)
    if w is None:
        return []
    return path_brief(w + [q.E[edge][2]])


def entry_name(ctx, key):
    return ctx.B[key]['path']


# ------------------------------------------------------------------ objects and outcomes

def obj_root(v):
    """The abstract object a handle/path term designates: strips payload projections and
    mutation sets; a handle obtained by opening a path designates that path's object."""
    seen = 0
    while v is not None and seen < 40:
        seen += 1
        t = VAL[v]
        if t[0] == 'sym' and t[1] in ('vf', 'fld'):
            v = t[2]
        elif t[0] == 'sym' and t[1] == 'mut':
            v = t[2]
        elif t[0] == 'sym' and t[1] == 'app' and prims.classify(t[2])[0] in ('open_ro', 'open_rw') and len(t) > 4:
            pi = 4 + prims.classify(t[2])[1].get('path', 0)
            v = t[pi] if pi < len(t) else t[4]
        elif t[0] == 'sym' and t[1] == 'app' and prims.classify(t[2])[0] in ('fd_raw', 'temp_persist') and len(t) > 4:
            v = t[4]        # the raw descriptor of a handle / a kept temp path designates the same object
        elif t[0] == 'agg' and len(t) == 4 and not t[1].startswith(('closure:', 'lazy:', 'tuple')) and t[3] is not None:
            v = t[3]        # a one-field wrapper (`Ready::Path(p)`, `Some(p)`) designates what it wraps
        else:
            return v
    return v


def outcome_edges(q, e, vname):
    """refine edges that establish outcome `vname` (Ok/Err/Some/None) of the call made on edge e."""
    ev = q.E[e][2]
    res = ev.get('res')
    if res is None:
        return []

    def owns(v):
        if v == res:
            return True
        # an integer status converted to io::Result by a pure local helper: rc_to_error(libc::close(fd))
        t = VAL[v]
        return t[0] == 'sym' and t[1] == 'app' and t[2].startswith('local::') and res in t[4:]
    return q.edges(lambda x: x['k'] == 'refine' and x['vname'] == vname and owns(x['val']))


def outcomes(q, edges, vname):
    out = []
    for e in edges:
        out += outcome_edges(q, e, vname)
    return sorted(set(out))


def is_temp_object(v):
    t = VAL[v]
    return t[0] == 'sym' and t[1] == 'app' and prims.classify(t[2])[0] in ('temp_create_named', 'temp_create_anon', 'temp_create_named_default')


def callback_kind(ctx, q, ev):
    """populate / judge / checker / other, from the callee term: entry parameters are classified
    by their declared bound, the checker by the field it is loaded from."""
    c = ev['callee']
    t = VAL[c]
    if t[0] == 'sym' and t[1] == 'param':
        body = ctx.B[q.interp.entry_key]
        ty = ctx.T[body['locals'][int(t[2])]['ty']]
        # impl Trait parameters print as `impl FnOnce(..)`
        s = ty['s']
        if 'CacheHit' in s:
            return 'judge'
        if 'File' in s and 'Fn' in s and 'mut' in s:
            return 'populate'
        return 'param'
    for s_ in values.subs(c):
        ts = VAL[s_]
        if ts[0] == 'sym' and ts[1] == 'fld':
            return 'checker'
    return 'other'


# ------------------------------------------------------------------ rewind typestate

def is_seek_start0(ev):
    if ev['k'] != 'ext' or prims.classify(ev['path'])[0] != 'seek':
        return False
    if ev['path'].endswith('::rewind'):
        return True
    pos = arg_role(ev, 'pos')
    if pos is None:
        return False
    t = VAL[pos]
    return t[0] == 'agg' and t[1] == 'std::io::SeekFrom' and t[2] == 'v0' and VAL[t[3]] == ('int', '0')


def dirtying_edges(ctx, q, root):
    """events that move the file offset of the handle whose object is `root`: the handle lent (by &mut) to a
    user callback, used as the source of io::copy, or read from."""
    def pred(ev):
        if ev['k'] == 'usercb':
            return any(a is not None and obj_handle_root(a) == root for a in ev['args'])
        if ev['k'] == 'ext':
            c = prims.classify(ev['path'])[0]
            r = prims.classify(ev['path'])[1]
            if c == 'content_write' and 'src' in r:
                return obj_handle_root(arg_role(ev, 'src')) == root
            if c == 'read':
                return obj_handle_root(arg_role(ev, 'handle')) == root
            if c == 'seek' and not is_seek_start0(ev):
                return obj_handle_root(arg_role(ev, 'handle')) == root
        return False
    return q.edges(pred)


def obj_handle_root(v):
    """identity of a *handle* (not of the file it names): strips payload projections, mutation sets and
    enum wrappers such as CacheHit::Primary(&mut file) / Some(file)."""
    n = 0
    while v is not None and n < 40:
        n += 1
        t = VAL[v]
        if t[0] == 'sym' and t[1] in ('vf', 'fld'):
            v = t[2]
        elif t[0] == 'sym' and t[1] == 'mut':
            v = t[2]
        elif t[0] == 'agg' and len(t) == 4:
            v = t[3]
        elif t[0] == 'sym' and t[1] == 'app' and prims.classify(t[2])[0] == 'fd_dup' and len(t) > 4:
            v = t[4]        # dup(2) / try_clone(): the duplicate shares the file offset with the original
        else:
            return v
    return v


def norm_cmp(t):
    """(op, a, b) of a comparison term; `a.cmp(&b) == Ordering::Less` (what `match a.cmp(&b) { Less => .. }` is reported
    as) reads as `a < b`, Equal as `a == b`, Greater as `a > b`."""
    if not (t[0] == 'sym' and t[1] == 'cmp'):
        return None
    op, a, b = t[2], t[3], t[4]
    if op in ('Eq', 'Ne'):
        for x, y in ((a, b), (b, a)):
            ty, tx = VAL[y], VAL[x]
            if ty[0] == 'agg' and ty[1] == 'std::cmp::Ordering' and tx[0] == 'sym' and tx[1] == 'app' and tx[2].endswith('::cmp') and len(tx) >= 6:
                k = int(ty[2][1:])
                rel = {0: 'Lt', 1: 'Eq', 2: 'Gt'}.get(k)
                if rel is None:
                    return None
                if op == 'Ne':
                    rel = {'Lt': 'Ge', 'Eq': 'Ne', 'Gt': 'Le'}[rel]
                return rel, tx[4], tx[5]
    return op, a, b


def rewind_edges(q, root):
    S = [e for e in q.edges(is_seek_start0) if obj_handle_root(arg_role(q.E[e][2], 'handle')) == root]
    return outcomes(q, S, 'Ok')


def unrewound(ctx, q, root, until_nodes):
    """dirtying edges on `root` from which an `until` node is reachable without a successful seek(Start(0))."""
    D = dirtying_edges(ctx, q, root)
    S = rewind_edges(q, root)
    return q.must_follow(D, S, until_nodes), D, S


def is_atime_touch_of(ev, root):
    """an event that can only advance the access time of the object `root`: set_file_atime(path) or
    set_file_handle_times(handle, _, None)."""
    c = cls_of(ev)
    if c == 'meta_atime':
        return obj_root(arg_role(ev, 'path')) == root
    if c == 'meta_times_h':
        mt = arg_role(ev, 'mtime')
        t = VAL[mt] if mt is not None else None
        none = t is not None and t[0] == 'agg' and t[1] == 'std::option::Option' and t[2] == 'v0'
        return none and obj_root(arg_role(ev, 'handle')) == root
    return False


def unfold_const_fn(ctx, v):
    """value of an argument-less pure local function (a named constant in function form), else v."""
    t = VAL[v] if v is not None else None
    if t is not None and t[0] == 'sym' and t[1] == 'app' and t[2].startswith('local::') and len(t) == 4:
        k = ctx.by_path.get(t[2][len('local::'):])
        if k is not None and ctx.B[k]['arg_count'] == 0:
            q = ctx.explore(k, opaque='none', precise=True, tag='constfn')
            rets = {q.g.term[n]['val'] for n in q.terminals(lambda ev: ev['k'] == 'ret')}
            if len(rets) == 1:
                return next(iter(rets))
    return v
