"""C20 -- per-operation resource use is constant (DESIGN §5 C20)."""
import prims
import values
from values import VAL, show
from runner import inst
from rules.common import tags_of, cls_of, witness_path, arg_role
from rules.c06 import gate_edges
from rules.c15 import stack_entries
from graph import path_brief

EXPLANATION = ('(R20.1) no directory listing is reachable (call graph) from any get/touch entry point; in set/put every listing '
               'event of the state graph is dominated by the true edge of an in-memory maintenance gate; (R20.2) the maximum '
               'number of open attempts on any path of a plain lookup is 1, of a sharded lookup 2, likewise set-atime calls in '
               'touch, and the stacked get performs at most one write-side lookup; (R20.3) no public or static/thread-local type '
               'transitively owns a descriptor-holding field, no leak primitive exists, into_raw_fd results flow into close; '
               '(R20.4) the number of distinct descriptor-opening roots simultaneously held in live locals, maximised over all '
               'abstract states of each entry point (callee peaks added at abstract write-side/read-side operations), is <= 2 '
               'without and <= 3 with a consistency checker; (R20.5) the crate contains no advisory-lock call and no exclusive-create '
               '(lock-file) open. Syscalls inside one std/filetime/tempfile primitive are trusted O(1).')
FLOORS = {'R20.1': 12, 'R20.2': 6, 'R20.3': 8, 'R20.4': 20, 'R20.5': 1, 'R20.6': 1}
FIXTURE_RULES = ['R20.3', 'R20.5', 'R20.6']

LOOKUPS = ['plain::Cache::get', 'plain::Cache::touch', 'sharded::Cache::get', 'sharded::Cache::touch']
WRITES = ['plain::Cache::set', 'plain::Cache::put', 'sharded::Cache::set', 'sharded::Cache::put']


def public_methods_of(ctx, adt, names):
    out = []
    for k, b in ctx.B.items():
        if b['public'] and b.get('impl_self_ty') is not None and ctx.T[b['impl_self_ty']].get('adt') == adt \
                and not b.get('impl_trait') and b['name'] in names:
            out.append((b['path'], k))
    return out


def r20_1(ctx):
    out = []
    lookups = [(p, ctx.key_of(p)) for p in LOOKUPS]
    lookups += public_methods_of(ctx, ctx.role('stack_cache'), ('get', 'touch'))
    lookups += public_methods_of(ctx, ctx.role('readonly_cache'), ('get', 'touch'))
    for name, k in lookups:
        eff = ctx.cg.effects(k)
        bad = 'list_dir' in eff
        path = []
        if bad:
            for b2 in ctx.cg.reach(k):
                for (np, cls, site) in ctx.cg.ext_calls.get(b2, ()):
                    if cls == 'list_dir':
                        path.append('%s %s in %s' % (site['span'], np, ctx.B[b2]['path']))
        out.append(inst('R20.1', 'lookup|' + name, not bad,
                        'no directory listing reachable' if not bad else 'a lookup/touch can list a directory (cost grows with the number of entries)',
                        path=path))
    for p in WRITES + ['sharded::Cache::temp_dir']:
        q = ctx.explore(ctx.key_of(p))
        L = q.prim_edges('list_dir')
        G = gate_edges(q)
        bad = q.must_precede(G, L)
        out.append(inst('R20.1', 'write|' + p, not bad and bool(L),
                        '%d listing events, all below an in-memory maintenance gate (%d gate edges)' % (len(L), len(G)) if not bad else
                        'a directory listing is performed unconditionally on the write path',
                        path=witness_path(q, bad[0], blocked=G) if bad else []))
    return out


def r20_2(ctx):
    out = []
    OPEN = ('open_ro', 'open_rw')
    TOUCH = ('meta_atime', 'meta_times', 'meta_times_h')
    for p, cls, bound in (('plain::Cache::get', OPEN, 1), ('sharded::Cache::get', OPEN, 2),
                          ('plain::Cache::touch', TOUCH, 1), ('sharded::Cache::touch', TOUCH, 2)):
        q = ctx.explore(ctx.key_of(p))
        E = q.prim_edges(set(cls))
        n = q.max_count(E)
        ok = 1 <= n <= bound
        out.append(inst('R20.2', '%s|%s' % (p, cls[0]), ok, 'max %s attempts on any path = %s (bound %d)' % (cls[0], n, bound),
                        path=witness_path(q, E[-1]) if (not ok and E) else []))
    wt = ctx.role('write_trait')
    for name, k in public_methods_of(ctx, ctx.role('stack_cache'), ('get', 'touch')):
        q = ctx.explore(k, mode='layer')
        E = q.edges(lambda ev: ev['k'] == 'traitcall' and ev['trait'] == wt)
        n = q.max_count(E)
        out.append(inst('R20.2', '%s|write-side lookups' % name, n <= 1, 'max write-side operations on any path = %s' % n))
    return out


def r20_3(ctx):
    out = []
    from engine import Interp
    from models import Models
    I = Interp(ctx.facts, Models())
    # long-lived types: every public ADT and the type of every static / thread-local
    for path, a in ctx.facts['adts'].items():
        if not a['public']:
            continue
        w = I.fd_weight(a['ty'])
        t = ctx.T[a['ty']]
        # transient helper types of the public planner API are parametric (Update<T>): weight of T is charged to the user
        out.append(inst('R20.3', 'type|' + path, w == 0, 'no descriptor-owning field (weight %d)' % w if w == 0 else
                        'public type %s transitively owns %d descriptor-holding field(s): a file or directory stream would stay open between calls' % (path, w)))
    for s in ctx.facts['statics']:
        w = I.fd_weight(s['ty'])
        out.append(inst('R20.3', 'static|' + s['path'].split('::')[0], w == 0, 'static/thread-local owns no descriptor' if w == 0 else
                        'static %s owns a descriptor' % s['path']))
    # leak primitives
    leaks = []
    rawfd = []
    for k, calls in ctx.cg.ext_calls.items():
        for (np, cls, site) in calls:
            if cls == 'leak':
                leaks.append('%s %s in %s' % (site['span'], np, ctx.B[k]['path']))
            if cls == 'fd_raw' and 'into_raw_fd' in np:
                rawfd.append((k, site))
    out.append(inst('R20.3', 'leak_primitives', not leaks, 'no forget/ManuallyDrop/leak call in the crate' if not leaks else
                    'leak primitive present: %s' % leaks[:3], path=leaks))
    for (k, site) in rawfd:
        q = ctx.explore(k)
        closes = q.prim_edges('close')
        ok = bool(closes) and all(any(VAL[s][0] == 'sym' and VAL[s][1] == 'app' and 'into_raw_fd' in VAL[s][2]
                                      for s in values.subs(q.E[e][2]['args'][0])) for e in closes)
        raw = q.prim_edges('fd_raw')
        # every path from into_raw_fd reaches close
        rets = q.terminals(lambda ev: ev['k'] == 'ret')
        esc = q.must_follow(raw, closes, rets)
        ok = ok and not esc
        out.append(inst('R20.3', 'raw_fd|' + ctx.B[k]['path'], ok, 'into_raw_fd result flows into close on every path' if ok else
                        'a raw descriptor obtained with into_raw_fd can escape without being closed'))
    return out


LOCKISH = ('std::fs::OpenOptions::create_new', 'std::fs::File::create_new', 'std::fs::File::lock', 'std::fs::File::lock_shared',
           'std::fs::File::try_lock', 'std::fs::File::try_lock_shared', 'libc::flock', 'libc::lockf', 'libc::fcntl')


def r20_5(ctx):
    """"no lock is ever taken": the crate contains no advisory-lock call and no exclusive-create open (O_CREAT|O_EXCL by
    hand is the lock-file idiom: whoever creates the marker owns the critical section and a crashed owner leaves it
    held).  Temporary files are created through the tempfile crate, which is not this.  Expected count: zero."""
    found = []
    for k, calls in ctx.cg.ext_calls.items():
        for (np, cls, site) in calls:
            if np in LOCKISH or cls == 'lock':
                found.append('%s %s in %s' % (site['span'], np, ctx.B[k]['path']))
    return [inst('R20.5', 'crate|no lock or lock-file primitive', not found,
                 'no flock/lockf/fcntl/File::lock call and no exclusive-create open anywhere in the crate' if not found else
                 'lock or lock-file primitive present: %s' % found[:3], path=found)]


COLLECTIONS = ('std::vec::Vec', 'std::collections::VecDeque', 'std::collections::HashMap', 'std::collections::BTreeMap',
               'std::collections::HashSet', 'std::collections::BTreeSet', 'std::collections::LinkedList', 'std::collections::BinaryHeap')


def r20_6(ctx):
    """"never more than two (three) files open at once": outside maintenance no function of a lookup / insert path keeps
    a *collection* of descriptor-owning values (a `Vec<File>` filled in a loop holds as many descriptors as there are
    caches in the stack, which no constant bounds).  Maintenance's candidate list is exempt: the property excludes it."""
    m = ctx.cachedir_methods()
    maint = set()
    for k in m['maintain']:
        maint |= ctx.cg.reach(k)
    entries = [ctx.key_of(p) for p in LOOKUPS + WRITES] + [k for _n, k in stack_entries(ctx)] + \
        [k for _n, k in public_methods_of(ctx, ctx.role('readonly_cache'), ('get', 'touch'))]
    bodies = set()
    for k in entries:
        bodies |= ctx.cg.reach(k)
    bodies -= maint
    found = fd_collections_in(ctx, bodies)
    return [inst('R20.6', 'no collection of open files outside maintenance', not found,
                 'no function on a lookup/insert path (maintenance excluded; %d bodies) holds a collection of descriptor-owning values' % len(bodies) if not found else
                 'a collection of open files/streams is built outside maintenance: %s' % found[:3], path=found)]


def fd_collections_in(ctx, bodies):
    from engine import Interp
    from models import Models
    I = Interp(ctx.facts, Models())

    def fd_collection(tyid, depth=0):
        t = ctx.T[tyid]
        if depth > 4:
            return None
        if t['k'] == 'adt':
            targs = [a for a in t.get('targs', []) if isinstance(a, int)]
            if t.get('adt') in COLLECTIONS and any(I.fd_weight(a) > 0 for a in targs):
                return t['s']
            for a in targs:
                r = fd_collection(a, depth + 1)
                if r:
                    return r
        if t['k'] in ('ref', 'rawptr') and isinstance(t.get('to'), int):
            return fd_collection(t['to'], depth + 1)
        if t['k'] == 'tuple':
            for a in t.get('elems', []):
                r = fd_collection(a, depth + 1)
                if r:
                    return r
        return None
    found = []
    for k in sorted(bodies):
        b = ctx.B[k]
        for l in b['locals']:
            r = fd_collection(l['ty'])
            if r:
                found.append('%s: local of type %s' % (b['path'], r[:90]))
                break
    return found


def peak(q):
    best = 0
    arg = None
    for n, roots in q.g.fd.items():
        if len(roots) > best:
            best = len(roots)
            arg = n
    return best, arg


def explore_fd(ctx, key, mode, facts=None, tag=None):
    # fd tracking needs a fresh exploration with the flag on
    ck = ('fd', key, mode, tag)
    if not hasattr(ctx, '_fdq'):
        ctx._fdq = {}
    if ck in ctx._fdq:
        return ctx._fdq[ck]
    from engine import Interp
    from models import Models
    from graph import GQ
    I = Interp(ctx.facts, Models())
    I.opaque = set(ctx.pure)
    I.opaque.discard(key)
    I.track_fd = True
    if mode == 'layer':
        I.summarise_traits = set(ctx.layer_traits())
    g = I.run(key, facts=facts)
    q = GQ(g)
    q.interp = I
    ctx._fdq[ck] = q
    ctx.stats['explorations'] += 1
    ctx.stats['nodes'] += g.n
    ctx.stats['edges'] += len(g.edges)
    return q


def r20_4(ctx):
    out = []
    # lower layer: peaks of the trait implementations' operations
    impl_peak = {}
    for tp in (ctx.role('write_trait'), ctx.role('read_trait')):
        for imp in ctx.traits[tp]['impls']:
            for name, k in imp['methods'].items():
                q = explore_fd(ctx, k, 'full')
                p, n = peak(q)
                # the receiver parameter and the source path are not descriptors; parameters counted are File params only
                impl_peak.setdefault((tp, name), []).append(p - param_roots(q))
    lower = [(p, ctx.key_of(p)) for p in LOOKUPS + WRITES]
    for name, k in lower:
        q = explore_fd(ctx, k, 'full')
        p, n = peak(q)
        p -= param_roots(q)
        out.append(inst('R20.4', name, p <= 2, 'peak of simultaneously live descriptor roots = %d (bound 2)' % p,
                        path=path_brief(q.witness(n) or [])[-10:] if p > 2 else [], sample={'peak': p}))
    # stacked layer: live roots at each abstract operation + the operation's own peak
    f = ctx.stack_fields()
    todo = []
    for name, k in stack_entries(ctx) + public_methods_of(ctx, ctx.role('readonly_cache'), ('get', 'touch')):
        todo.append((name + '|any checker', k, None, 3, 'any'))
        todo.append((name + '|no checker', k, ctx.checker_none_facts(k), 2, 'nochk'))
    for name, k, facts, bound, tag in todo:
        q = explore_fd(ctx, k, 'layer', facts=facts, tag=tag)
        best, where = 0, None
        for n, roots in q.g.fd.items():
            cnt = len([r for r in roots if VAL[r][1] != 'param'])
            extra = 0
            for ei in q.succ.get(n, ()):
                ev = q.E[ei][2]
                if ev is not None and ev['k'] == 'traitcall':
                    extra = max(extra, max(impl_peak.get((ev['trait'], ev['method']), [0])))
            if cnt + extra > best:
                best, where = cnt + extra, n
        # configurations with a checker may hold one more
        out.append(inst('R20.4', name, best <= bound, 'peak of live descriptor roots incl. callee peaks = %d (bound %d)' % (best, bound),
                        path=path_brief(q.witness(where) or [])[-12:] if best > bound else [], sample={'peak': best}))
    return out


def param_roots(q):
    # parameters are not opened by the operation; do not charge them
    m = 0
    for n, roots in q.g.fd.items():
        m = max(m, len([r for r in roots if VAL[r][1] == 'param']))
    return m


def run(ctx):
    from runner import collect
    return collect(ctx, r20_1, r20_2, r20_3, r20_4, r20_5, r20_6)


def run_fixture(fctx):
    return {'R20.3': sum(1 for i in r20_3(fctx) if not i['ok']), 'R20.5': sum(1 for i in r20_5(fctx) if not i['ok']),
            'R20.6': len(fd_collections_in(fctx, set(fctx.B)))}
