"""C18 -- I/O failures are reported, never masked (DESIGN §5 C18)."""
import re
import prims
import values
from values import VAL, show
from runner import inst
from rules import sites
from rules.common import (tags_of, cls_of, witness_path, arg_role, obj_root, outcomes, path_class)
from graph import path_brief

EXPLANATION = ('(R18.1) for every fallible event (filesystem primitive, write/read-side operation, user callback, io::Result-'
               'returning local helper) on the state graphs of all cache-directory, sharded and stacked entry points: its result '
               'is inspected, and from its Err outcome no Ok exit is reachable except through an absence-classification edge on '
               'that very error or at one of the enumerated best-effort sites (each with its reason); (R18.2) every Ok exit of '
               'the cache-directory inserts is dominated by publish:Ok or the link-EEXIST edge, every Ok exit of the finalizer by '
               'chmod:Ok and close:Ok; (R18.3) no keep/persist/forget primitive exists, so temp files stay owned by drop guards; '
               '(R18.4) a panic that is reachable only below the Err outcome of a fallible event exists solely for the documented '
               'failed-flush case; unwrap/expect call sites on io::Result are inventoried; (R18.5) every Ok exit of the publish functions '
               'and cache-directory inserts is dominated by the removal of the source name (= R11.1), so a reported success leaves no '
               'staged file behind. Behaviour per errno at run time is not decided.')
FLOORS = {'R18.1': 100, 'R18.2': 3, 'R18.3': 1, 'R18.4': 3, 'R18.5': 4, 'R18.6': 4}
FIXTURE_RULES = ['R18.3']

# enumerated best-effort sites: (entry regex, site regex, which escape kind is tolerated, reason)
ALLOW = [
    (r'.*', r'^std::fs::File::metadata\(Handle\(Base/Key\)\)$', 'escapes', 'atime re-touch after a successful open is best effort'),
    (r'.*', r'^filetime::set_file_handle_times\(Handle\(Base/Key\)\)$', 'escapes', 'atime re-touch after a successful open is best effort'),
    (r'.*', r'^std::fs::DirEntry::metadata\(Entry\(Temp\)\)$', 'escapes', 'per-file temp cleanup is best effort (races with the files\' owners)'),
    (r'.*', r'^std::fs::remove_file\(Temp/Listed\)$', 'escapes', 'per-file temp cleanup is best effort (races with the files\' owners)'),
    (r'.*', r'^std::fs::(symlink_)?metadata\((Temp|Base|parent\(Base/Key\))\)$', 'escapes_without_mkdir', 'stat in ensure-directory falls through to create_dir_all, whose result is reported'),
    (r'^stack::', r'^write/read-side get$', 'reread', 'a failed write-side lookup next to ensure\'s insert falls back to the pre-opened handle; the insert itself is reported'),
    (r'.*', r'^filetime::set_file_atime\(Base/Key\)$', 'eexist_touch', 'touch after link-EEXIST: absence is benign'),
]
# first publish attempt: errors are superseded by the second attempt after create_dir_all
FIRST_ATTEMPT = re.compile(r'^(filetime::set_file_times\(Value\)|std::fs::symlink_metadata\(Value\)|std::fs::set_permissions\(Value\)|'
                           r'std::fs::rename\(Base/Key\)|std::fs::hard_link\(Base/Key\)|std::fs::remove_file\(Value\)|filetime::set_file_atime\(Base/Key\))$')


def allowed(rec):
    for (er, sr, kind, why) in ALLOW:
        if re.match(er, rec['entry']) and re.match(sr, rec['site']):
            return kind, why
    return None, None


def r18_1(ctx):
    return classify_recs(ctx, sites.analyse(ctx, sites.lower_entries(ctx) + sites.stack_level_entries(ctx)), 'R18.1')


def e18_1(ctx):
    return classify_recs(ctx, sites.analyse(ctx, sites.e2e_entries(ctx)), 'E18.1')


def _inside_reread(ctx, q, rec, esc):
    """every escaping error belongs to a write-side lookup that runs after a publish (the re-read of the miss path)"""
    wt = ctx.role('write_trait')
    ins = ctx.insert_methods()
    get_impls = set()
    for name, role in ins.items():
        if role == 'get':
            get_impls |= ctx.cg.impl_targets(wt, name)
    pubs = q.prim_edges({'publish_replace', 'publish_excl'})
    if not pubs:
        return False
    for (_e0, x) in esc:
        owners = [e for e in rec['edges'] if sites.result_value(q.E[e][2]) == q.E[x][2]['val']]
        for e in owners:
            if not (set(q.E[e][2]['ctx']) & get_impls):
                return False
            if q.must_precede(pubs, [e]):
                return False
    return True


def classify_recs(ctx, recs, rule):
    out = []
    for rec in recs:
        q = rec['q']
        key = '%s|%s' % (rec['entry'], rec['site'])
        ok = True
        detail = 'error propagated'
        path = []
        kind, why = allowed(rec)
        if rec['dropped'] and kind == 'escapes':
            detail = 'best-effort site (result deliberately discarded): ' + why
        elif rec['dropped']:
            ok = False
            detail = 'result of %s is never inspected (silently dropped) at %s' % (rec['site'], rec['spans'][0])
            path = witness_path(q, rec['dropped'][0])
        elif rec['escapes']:
            esc = rec['escapes']
            if FIRST_ATTEMPT.match(rec['site']) and not rec['escapes_without_mkdir']:
                detail = 'first-attempt error is superseded by create_dir_all + second attempt, whose error is reported'
            elif rec['cls'] == 'probe' and rec['bool_only']:
                detail = 'existence probe used only as a boolean (is_ok / is_err)'
            elif kind == 'escapes' or (kind == 'escapes_without_mkdir' and not rec['escapes_without_mkdir']):
                detail = 'best-effort site: ' + why
            elif kind == 'reread':
                # tolerated only for a lookup that follows a put on every path
                wt = ctx.role('write_trait')
                puts = q.edges(lambda ev: ev['k'] == 'traitcall' and ev['trait'] == wt and ctx.insert_methods().get(ev['method']) == 'put')
                bad = []
                for (_e0, x) in esc:
                    owners = [e for e in rec['edges'] if sites.result_value(q.E[e][2]) == q.E[x][2]['val']]
                    early = [e for e in owners if q.must_precede(puts, [e])]
                    if early:
                        # a lookup before the insert: still harmless when every Ok exit after its failure is
                        # preceded by a successful insert (the operation's effect is achieved regardless)
                        inserts = q.edges(lambda ev: ev['k'] == 'traitcall' and ev['trait'] == wt and ctx.insert_methods().get(ev['method']) in ('put', 'set'))
                        oks = q.terminals(lambda ev: ev['k'] == 'ret' and ev.get('variant') == 'Ok')
                        early = [e for e in early if q.must_follow(outcomes(q, [e], 'Err'), outcomes(q, inserts, 'Ok'), oks)]
                    bad += early
                if bad:
                    ok = False
                    detail = 'an error of a write-side lookup is discarded and success reported'
                    path = witness_path(q, bad[0])
                else:
                    detail = 'best-effort site: ' + why
            elif rule.startswith('E') and _inside_reread(ctx, q, rec, esc):
                detail = 'best-effort site: re-read after the put falls back to the pre-opened handle (fully inlined)'
            elif kind == 'eexist_touch' and rec['benign'] and not rec['benign_bad']:
                detail = 'absence after link-EEXIST is benign; other errors propagate'
                if any(True for (e, x) in rec['escapes_without_mkdir']) and not rec['benign']:
                    ok = False
            else:
                ok = False
                e, x = esc[0]
                detail = 'an error of %s (%s) can be followed by a successful return without being reported or classified as absence' % (rec['site'], rec['spans'][0])
                path = witness_path(q, x)
        elif rec['benign']:
            detail = 'absence classified as benign, other errors propagate'
        out.append(inst(rule, key, ok, detail, path=path))
    return out


def r18_2(ctx):
    out = []
    m = ctx.cachedir_methods()
    for role in ('set', 'put'):
        q = ctx.explore(m[role])
        pubs = q.prim_edges({'publish_replace', 'publish_excl'})
        A = outcomes(q, pubs, 'Ok')
        # link failed with AlreadyExists -> touch
        A += q.edges(lambda ev: ev['k'] == 'branch' and ev.get('eq') == 1 and VAL[ev['val']][0] == 'sym' and VAL[ev['val']][1] == 'cmp'
                     and any(VAL[s][0] == 'agg' and VAL[s][1] == 'std::io::ErrorKind' for s in values.subs(ev['val'])))
        oks = q.terminals(lambda ev: ev['k'] == 'ret' and ev.get('variant') == 'Ok')
        r = q.reach_fwd([q.g.entry], blocked=A)
        bad = [t for t in oks if t in r]
        out.append(inst('R18.2', 'cachedir.%s' % role, not bad and bool(oks),
                        'every Ok exit is dominated by publish:Ok or link-EEXIST (%d Ok exits)' % len(oks) if not bad else
                        'the write can report success without having published the file',
                        path=path_brief(q.witness(bad[0], blocked=A) or []) if bad else []))
    performed = set()
    for fk in ctx.role('finalizers'):
        q = ctx.explore(fk)
        oks = q.terminals(lambda ev: ev['k'] == 'ret' and ev.get('variant') == 'Ok')
        for cls, what in (('meta_perm', 'chmod'), ('close', 'close')):
            E = q.prim_edges(cls)
            if not E:
                continue      # a helper that does not perform this step has nothing to report for it
            performed.add(what)
            A = outcomes(q, E, 'Ok')
            r = q.reach_fwd([q.g.entry], blocked=A)
            bad = [t for t in oks if t in r]
            out.append(inst('R18.2', 'finalizer %s|%s' % (ctx.B[fk]['name'], what), not bad,
                            'every Ok exit of the finalizer is dominated by %s:Ok' % what if not bad else
                            'the finalizer can return Ok although %s failed or was skipped' % what))
    # ... but every step is some finalizer's job: a close that is left to the destructor reports nothing
    for what in ('chmod', 'close'):
        if what not in performed:
            out.append(inst('R18.2', 'finalizers|%s' % what, False,
                            'no temp-file finalizer performs a checked %s any more: its failure (e.g. a deferred write error reported by close on NFS) would be dropped silently' % what))
    return out


def r18_3(ctx):
    hits = []
    for k, calls in ctx.cg.ext_calls.items():
        for (np, cls, site) in calls:
            if cls in ('temp_persist', 'leak', 'temp_unlink_keep_fd'):
                hits.append('%s %s [%s] in %s' % (site['span'], np, cls, ctx.B[k]['path']))
    return [inst('R18.3', 'crate|no keep/persist/forget', not hits, 'no temp_persist / leak primitive in the crate' if not hits else
                 'a temp file or descriptor can escape its drop guard: %s' % hits[:3], path=hits)]


def r18_4(ctx):
    out = []
    recs = sites.analyse(ctx, sites.lower_entries(ctx) + sites.stack_level_entries(ctx))
    seen = set()
    for rec in recs:
        for (e, p) in rec['panic_on_err']:
            q = rec['q']
            pe = q.g.term[p]
            key = '%s|%s|%s' % (rec['entry'], rec['site'], pe.get('why'))
            if key in seen:
                continue
            seen.add(key)
            documented = rec['cls'] == 'sync' and pe.get('why', '').startswith('std::result::Result::')
            out.append(inst('R18.4', key, documented,
                            'documented failed-flush panic (%s)' % pe.get('msg', '')[:60] if documented else
                            'a failure of %s makes the operation panic (%s %s) instead of returning an error' % (rec['site'], pe.get('why'), pe.get('msg', '')),
                            path=path_brief(q.witness(p) or [])[-12:] if not documented else []))
    # inventory of unwrap/expect on io::Result in the whole crate
    for k, calls in ctx.cg.ext_calls.items():
        for (np, cls, site) in calls:
            if np in ('std::result::Result::expect', 'std::result::Result::unwrap', 'std::result::Result::expect_err', 'std::result::Result::unwrap_err') \
                    and any('std::io::Error' in g for g in site.get('gargs', [])):
                b = ctx.B[k]
                documented = (b['public'] and 'panicking' in b['name']) or any(c == 'sync' for (_, c, s2) in calls)
                out.append(inst('R18.4', 'unwrap|%s|%s' % (b['path'], np), documented,
                                'expect/unwrap on io::Result in %s: %s' % (b['path'], 'documented to panic' if documented else 'NOT a documented panic'),
                                path=[site['span']]))
    return out


def r18_5(ctx):
    """success means the source was consumed (nothing the caller staged is left behind): shared with R11.1."""
    from rules import c11
    return [inst('R18.5', i['key'].split('|', 1)[1], i['ok'], i['detail'], path=i.get('path') or []) for i in c11.r11_1(ctx)]


def r18_6(ctx):
    """a reported success leaves the entry in its valid published state: every publish is dominated by the *successful*
    stamping and write-bit stripping of the very file it publishes, on every attempt including retries (= R02.1)."""
    from rules import c02
    return [inst('R18.6', i['key'].split('|', 1)[1], i['ok'], i['detail'], path=i.get('path') or []) for i in c02.r02_1(ctx)]


def run(ctx):
    from runner import collect
    return collect(ctx, r18_1, r18_2, r18_3, r18_4, r18_5, r18_6)


def run_fixture(fctx):
    return {'R18.3': sum(1 for i in r18_3(fctx) if not i['ok'])}


THOROUGH_FLOORS = {'E18.1': 150}


def run_thorough(ctx):
    from runner import collect
    return collect(ctx, e18_1)
