"""C10 -- growth between maintenance runs is bounded: the wiring the bound presupposes (DESIGN §5 C10, narrow)."""
import prims
import values
from values import VAL, show
from runner import inst
from rules.common import (tags_of, cls_of, witness_path, arg_role, obj_root, outcomes, path_class)
from rules.c06 import gate_edges
from graph import path_brief

EXPLANATION = ('The arithmetic bound on gaps between trigger firings (thread-local countdown, arbitrary 64-bit draws) is NOT '
               'decided. Decided: (R10.1) in the cache-directory set and put, for every implementor, the trigger (the object '
               'returned by the same cache directory\'s trigger accessor) is consulted on every path before the first step of the '
               'publish, and below its true edge the directory listing of maintenance precedes the publish; (R10.2) the plain '
               'cache\'s trigger period, as an expression of the constructor\'s parameters, is capacity / 3; (R10.3) in every '
               'public operation of the plain cache, a consultation of the (thread-local, shared) countdown that fires is followed '
               'by maintenance of the directory, so no firing is consumed without maintaining.')
FLOORS = {'R10.1': 6, 'R10.2': 2, 'R10.3': 2}


def r10_1(ctx):
    out = []
    T = tags_of(ctx)
    T.need('trigger')
    m = ctx.cachedir_methods()
    for role in ('set', 'put'):
        q = ctx.explore(m[role])
        consult = q.edges(lambda ev: ev['k'] == 'pure_local' and ev['path'] in T.trigger_consult_paths and
                          any(VAL[s][0] == 'sym' and VAL[s][1] == 'app' and VAL[s][2] in T.need('trigger') for a in ev['args'] for s in values.subs(a)))
        pubs = q.prim_edges({'publish_replace', 'publish_excl'})
        first = pubs + [e for e in q.prim_edges({'meta_times', 'meta_perm'}) if path_class(ctx, q, arg_role(q.E[e][2], 'path')) == 'Value']
        bad = q.must_precede(consult, first)
        if not pubs:
            out.append(inst('R10.1', 'cachedir.%s|publish found' % role, False, 'no publish event found on the state graph of %s (anchor lost)' % role))
        out.append(inst('R10.1', 'cachedir.%s|trigger consulted' % role, bool(consult) and not bad,
                        'the trigger is consulted before the first step of every publish (%d publish-body events)' % len(first) if consult and not bad else
                        'a write can publish without consulting the maintenance trigger',
                        path=witness_path(q, bad[0], blocked=consult) if bad else []))
        # every write counts: no Ok exit of set/put is reachable without a consultation (an early "already there" exit
        # that skips it lets a thread re-put hot keys forever without ever maintaining)
        oks = q.terminals(lambda ev: ev['k'] == 'ret' and ev.get('variant') == 'Ok')
        r0 = q.reach_fwd([q.g.entry], blocked=consult)
        skip = [t for t in oks if t in r0]
        out.append(inst('R10.1', 'cachedir.%s|every successful write consults' % role, bool(oks) and not skip,
                        'no Ok exit is reachable without consulting the maintenance trigger (%d Ok exits)' % len(oks) if oks and not skip else
                        'a write can return Ok without having consulted the maintenance trigger: such writes are not counted toward the period',
                        path=path_brief(q.witness(skip[0], blocked=consult) or [])[-12:] if skip else []))
        fired = [e for e in gate_edges(q) if any(VAL[q.E[e][2]['val']][2] == p for p in T.trigger_consult_paths)]
        lists = [e for e in q.prim_edges('list_dir') if path_class(ctx, q, arg_role(q.E[e][2], 'path')) == 'Base']
        until = {q.E[e][0] for e in first}
        esc = q.must_follow(fired, lists, until)
        out.append(inst('R10.1', 'cachedir.%s|maintenance before insertion' % role, bool(fired) and bool(lists) and not esc,
                        'when the trigger fires, maintenance lists the directory before the publish' if fired and lists and not esc else
                        'when the trigger fires the file is published before (or without) maintenance',
                        path=witness_path(q, esc[0]) if esc else []))
    return out


def r10_2(ctx):
    out = []
    T = tags_of(ctx)
    k = ctx.key_of('plain::Cache::new')
    q = ctx.explore(k)
    rets = q.terminals(lambda ev: ev['k'] == 'ret')
    ok = False
    expr = None
    body = ctx.B[k]
    cap_param = [i for i in range(1, body['arg_count'] + 1) if ctx.T[body['locals'][i]['ty']]['s'] == 'usize']
    for t in rets:
        v = q.g.term[t]['val']
        if VAL[v][0] != 'agg':
            continue
        for f in VAL[v][3:]:
            tf = VAL[f] if f is not None else None
            if tf is not None and tf[0] == 'sym' and tf[1] == 'app' and tf[2].startswith('local::') and len(tf) == 5:
                arg = tf[4]
                ta = VAL[arg]
                while ta[0] == 'sym' and ta[1] == 'cast':
                    arg = ta[2]
                    ta = VAL[arg]
                expr = show(arg, 4)
                if ta[0] == 'sym' and ta[1] == 'bin' and ta[2] == 'Div':
                    a, b = VAL[ta[3]], VAL[ta[4]]
                    if a[0] == 'sym' and a[1] == 'param' and int(a[2]) in cap_param and b == ('int', '3'):
                        ok = True
    out.append(inst('R10.2', 'plain period', ok, 'plain cache trigger period = %s' % expr if ok else
                    'plain cache trigger period is %s, not capacity / 3' % expr))
    # the trigger consulted is the same object's accessor result (checked during role discovery); record it
    out.append(inst('R10.2', 'trigger identity', bool(T.roles.get('trigger')), 'trigger consulted = result of the cache directory\'s own trigger accessor (%s)' % T.roles.get('trigger')))
    return out


def r10_3(ctx):
    """the countdown is one thread-local shared by every consultation: a consultation that fires without running
    maintenance steals the firing from the next write.  In the plain cache's public API every fired consultation
    must be followed by the directory listing of maintenance."""
    out = []
    T = tags_of(ctx)
    T.need('trigger')
    tr = ctx.traits[ctx.role('cachedir_trait')]
    plain = [imp['self_ty_s'] for imp in tr['impls'] if ctx.facts['adts'].get(imp['self_ty_s'], {}).get('public')]
    n = 0
    for k, b in sorted(ctx.B.items()):
        if not (b['public'] and b.get('impl_self_ty') is not None and ctx.T[b['impl_self_ty']]['s'] in plain and not b.get('impl_trait')):
            continue
        if not (ctx.cg.effects(k) & prims.FS_CLASSES):
            continue
        q = ctx.explore(k, dyn_force=None)
        consults = {q.E[e][2]['res'] for e in q.edges(lambda ev: ev['k'] == 'pure_local' and ev['path'] in T.trigger_consult_paths)}
        fired = q.edges(lambda ev: ev['k'] == 'branch' and ev.get('eq') == 1 and ev['val'] in consults)
        if not consults:
            continue
        n += 1
        lists = [e for e in q.prim_edges('list_dir') if path_class(ctx, q, arg_role(q.E[e][2], 'path')) == 'Base']
        esc = q.must_follow(fired, lists, q.terminals())
        out.append(inst('R10.3', b['path'], bool(fired) and not esc,
                        'every fired trigger consultation is followed by maintenance of the directory' if fired and not esc else
                        '%s consults the shared maintenance countdown, and when it fires no maintenance follows: the firing is lost '
                        'and a writer can go more than capacity/3 writes without maintenance' % b['path'],
                        path=witness_path(q, esc[0]) if esc else []))
    return out


def run(ctx):
    from runner import collect
    return collect(ctx, r10_1, r10_2, r10_3)
