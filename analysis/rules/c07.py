"""C07 -- maintenance evicts what Second Chance prescribes, on disk: the listing->plan->apply glue (DESIGN §5 C07)."""
import prims
import values
from values import VAL, show
from runner import inst
from rules.common import (tags_of, cls_of, witness_path, arg_role, obj_root, outcomes, path_class, is_path_param)
from rules import c17
from graph import path_brief

EXPLANATION = ('The planner\'s own choice of victims is C08 (not applicable). Decided here is that the directory is presented to '
               'the planner faithfully and that its plan is executed faithfully: (G1) the planner\'s capacity operand is prune\'s '
               'capacity parameter / the same cache directory\'s capacity accessor, its entries operand is built only from the '
               'listing of the same directory; (G2) for the local type implementing second_chance::Entry, rank() is the entry\'s '
               'modification time and accessed() is a predicate that, decided over the three orderings of (atime, mtime) of that '
               'same metadata, is exactly atime >= mtime; (G3) directories are filtered before the plan (= C17 R17.2); (G4) elements '
               'of the plan\'s to_evict flow only into unlink(directory + their own file name), elements of to_move_back only '
               'into the re-stamping utimens, both visited with forward vector iterators, directory = prune\'s parameter.')
FLOORS = {'G1': 3, 'G2': 3, 'G3': 1, 'G4': 5, 'G5': 3}


def planner_events(ctx, q):
    T = tags_of(ctx)
    return q.edges(lambda ev: ev['k'] == 'pure_local' and ev['path'] == T.planner_path)


def g1(ctx):
    out = []
    T = tags_of(ctx)
    k = ctx.helper('raw_cache::prune')
    q = ctx.explore(k)
    P = planner_events(ctx, q)
    body = ctx.B[k]
    cap_params = [i for i in range(1, body['arg_count'] + 1) if ctx.T[body['locals'][i]['ty']]['s'] == 'usize']
    ok = bool(P) and all(VAL[q.E[e][2]['args'][1]][0] == 'sym' and VAL[q.E[e][2]['args'][1]][1] == 'param' and int(VAL[q.E[e][2]['args'][1]][2]) in cap_params for e in P)
    out.append(inst('G1', 'prune|capacity', ok, 'the planner receives prune\'s capacity parameter unchanged' if ok else
                    'the planner is given %s instead of the caller\'s capacity' % (show(q.E[P[0]][2]['args'][1], 3) if P else 'nothing')))
    lists = q.prim_edges('list_dir')
    dirs = {obj_root(arg_role(q.E[e][2], 'path')) for e in lists}
    okl = bool(P) and len(dirs) == 1 and all(is_path_param(ctx, q, d) for d in dirs)
    for e in P:
        v = q.E[e][2]['args'][0]
        rd = {s for s in values.subs(v) if VAL[s][0] == 'sym' and VAL[s][1] == 'app' and prims.classify(VAL[s][2])[0] == 'list_dir'}
        if any(obj_root(VAL[s][4]) not in dirs for s in rd):
            okl = False
    out.append(inst('G1', 'prune|entries from the listing of the same directory', okl,
                    'candidates come only from read_dir(prune\'s directory parameter)' if okl else 'the planner\'s entries do not come from the listing of the pruned directory'))
    m = ctx.cachedir_methods()
    mk = [k2 for k2 in m['maintain'] if 'meta_times' in ctx.cg.effects(k2) and ctx.B[k2]['arg_count'] == 1]
    for k2 in mk:
        q2 = ctx.explore(k2)
        P2 = planner_events(ctx, q2)
        okc = bool(P2) and all(VAL[q2.E[e][2]['args'][1]][0] == 'sym' and VAL[q2.E[e][2]['args'][1]][1] == 'app' and
                               VAL[q2.E[e][2]['args'][1]][2] in T.need('capacity') and VAL[VAL[q2.E[e][2]['args'][1]][4]][1] == 'param' for e in P2)
        okd = all(path_class(ctx, q2, arg_role(q2.E[e][2], 'path')) in ('Base', 'Temp') for e in q2.prim_edges('list_dir'))
        out.append(inst('G1', 'maintain|capacity accessor and directory of the same object', okc and okd,
                        'maintenance plans with this cache directory\'s own capacity over its own directory' if okc and okd else
                        'maintenance plans with a foreign capacity or over a foreign directory'))
    return out


def ordering_table(t):
    """truth table over (atime <, =, > mtime) of a comparison term between an access time and a modification time."""
    def is_at(v):
        return any(VAL[s][0] == 'sym' and VAL[s][1] == 'app' and VAL[s][2] in ('filetime::FileTime::from_last_access_time', 'std::fs::Metadata::accessed') for s in values.subs(v))

    def is_mt(v):
        return any(VAL[s][0] == 'sym' and VAL[s][1] == 'app' and VAL[s][2] in ('filetime::FileTime::from_last_modification_time', 'std::fs::Metadata::modified') for s in values.subs(v))
    from rules.common import norm_cmp
    nc = norm_cmp(t)
    if nc is None:
        return None, None
    op, a, b = nc
    rel = {'Lt': lambda o: o < 0, 'Le': lambda o: o <= 0, 'Gt': lambda o: o > 0, 'Ge': lambda o: o >= 0, 'Eq': lambda o: o == 0, 'Ne': lambda o: o != 0}[op]
    if is_at(a) and is_mt(b) and not is_mt(a) and not is_at(b):
        tab = {o: rel(o) for o in (-1, 0, 1)}
    elif is_mt(a) and is_at(b) and not is_at(a) and not is_mt(b):
        tab = {o: rel(-o) for o in (-1, 0, 1)}
    else:
        return None, None
    metas = set()
    for v in (a, b):
        for s in values.subs(v):
            ts = VAL[s]
            if ts[0] == 'sym' and ts[1] == 'app' and ts[2].startswith(('filetime::FileTime::from_last', 'std::fs::Metadata::')):
                metas.add(ts[4] if len(ts) > 4 else None)
    return tab, metas


def entry_impl(ctx):
    tr = ctx.planner_entry_trait()
    if not tr or len(tr['impls']) != 1:
        from ctx import RoleError
        raise RoleError('expected exactly one local implementation of second_chance::Entry')
    return tr['impls'][0]


def read_mark(ctx):
    """-> (field index of rank, field index of accessed, constructor graph terminals)"""
    imp = entry_impl(ctx)
    res = {}
    for name in ('rank', 'accessed'):
        q = ctx.explore(imp['methods'][name], opaque='none')
        rets = q.terminals(lambda ev: ev['k'] == 'ret')
        fl = set()
        for t in rets:
            v = q.g.term[t]['val']
            tv = VAL[v]
            if tv[0] == 'sym' and tv[1] == 'fld' and VAL[tv[2]][1] == 'ld':
                fl.add(int(tv[3][1:]))
            else:
                fl.add(('expr', v))
        res[name] = fl
    ctors = [k for k, b in ctx.B.items() if b['def_kind'] in ('AssocFn', 'Fn') and ctx.T[b['locals'][0]['ty']]['s'] == imp['self_ty_s'] and k in ctx.cg.pure_bodies()]
    return imp, res, ctors


def g2(ctx):
    """what maintenance hands to the planner: the values pushed onto the candidate list (entry constructors looked
    through, so it does not matter whether the entry is built by a constructor function or by a struct literal)."""
    out = []
    imp, res, ctors = read_mark(ctx)
    k = ctx.helper('raw_cache::prune')
    q = ctx.explore(k, opaque=set(ctx.pure) - set(ctors), tag='g2ctor')
    B, _sites = c17.candidate_push_edges(ctx, q)
    vals = set()
    for e in B:
        ev = q.E[e][2]
        if len(ev['args']) > 1 and ev['args'][1] is not None:
            vals.add(ev['args'][1])
    if not vals:
        return [inst('G2', 'constructor', False, 'no %s value is pushed onto the planner\'s candidate list' % imp['self_ty_s'])]
    for v in sorted(vals):
        if VAL[v][0] != 'agg':
            out.append(inst('G2', 'candidate value', False, 'the candidate entry is not built field by field (%s)' % show(v, 2)))
            continue
        fields = VAL[v][3:]
        rk = res['rank']
        ok_r = len(rk) == 1 and isinstance(next(iter(rk)), int)
        if ok_r:
            fv = fields[next(iter(rk))]
            tfv = VAL[fv]
            ok_r = tfv[0] == 'sym' and tfv[1] == 'app' and tfv[2] in ('filetime::FileTime::from_last_modification_time', 'std::fs::Metadata::modified')
        out.append(inst('G2', 'rank is the modification time', ok_r, 'rank() = mtime of the entry\'s metadata' if ok_r else
                        'rank() is not the entry\'s modification time (%s)' % (show(fields[next(iter(rk))], 3) if rk and isinstance(next(iter(rk)), int) else rk)))
        ac = res['accessed']
        ok_a = len(ac) == 1 and isinstance(next(iter(ac)), int)
        tab = None
        if ok_a:
            fv = fields[next(iter(ac))]
            tab, metas = ordering_table(VAL[fv])
            ok_a = tab == {-1: False, 0: True, 1: True} and metas is not None and len(metas) == 1
        out.append(inst('G2', 'accessed is atime >= mtime', ok_a, 'accessed() is true exactly for atime = mtime and atime > mtime (same metadata)' if ok_a else
                        'the read mark is not "atime >= mtime": truth table over (<,=,>) is %s' % (tab,)))
        # the candidate keeps the directory entry whose metadata its times were read from
        ents = [f for f in fields if f is not None and any(VAL[x][0] == 'sym' and VAL[x][1] == 'app' and VAL[x][2].endswith('::next') for x in values.subs(f))
                and not any(VAL[x][0] == 'sym' and VAL[x][1] == 'app' and 'etadata' in VAL[x][2] for x in values.subs(f))]
        metas_of = {x for f in fields if f is not None for x in values.subs(f) if VAL[x][0] == 'sym' and VAL[x][1] == 'app' and VAL[x][2] in ('std::fs::DirEntry::metadata', 'std::fs::metadata', 'std::fs::symlink_metadata')}
        together = bool(ents) and all(any(e_ in values.subs(m) for e_ in ents) for m in metas_of) and bool(metas_of)
        out.append(inst('G2', 'entry and times belong together', together,
                        'the candidate keeps the directory entry its times were read from' if together else
                        'the candidate\'s times do not come from the metadata of the directory entry it keeps'))
    return out


def g5(ctx):
    """"sparing files that were read since their last insertion or reprieve": the lookup's re-touch must *set* the mark
    maintenance tests (atime >= mtime) -- it stores atime := the file's own mtime and runs on every hit (= R09.2/R09.3)."""
    from rules import c09
    return [inst('G5', i['key'].split('|', 1)[1], i['ok'], i['detail'], path=i.get('path') or []) for i in c09.r09_2(ctx) + c09.r09_3(ctx)]


def g3(ctx):
    return [inst('G3', i['key'].split('|', 1)[1], i['ok'], i['detail'], path=i['path']) for i in c17.r17_2(ctx) if 'not_directory' in i['key']]


def g4(ctx):
    out = []
    T = tags_of(ctx)
    k = ctx.helper('raw_cache::prune')
    q = ctx.explore(k)
    upd = ctx.planner_adt()
    fi = {f['name']: i for i, f in enumerate(upd['variants'][0]['fields'])}
    if 'to_evict' not in fi or 'to_move_back' not in fi:
        return [inst('G4', 'plan fields', False, 'public plan fields to_evict / to_move_back not found')]
    P = planner_events(ctx, q)
    plans = {q.E[e][2]['res'] for e in P}

    def plan_fields(v):
        out_ = set()
        for s in values.subs(v):
            t = VAL[s]
            if t[0] == 'sym' and t[1] == 'fld' and t[2] in plans:
                out_.add(t[3])
        return out_
    rm = q.prim_edges('ns_remove_file')
    st = q.prim_edges({'meta_times', 'meta_atime', 'meta_times_h'})
    ok1 = bool(rm) and all(plan_fields(arg_role(q.E[e][2], 'path')) == {'f%d' % fi['to_evict']} for e in rm)
    out.append(inst('G4', 'evictees are unlinked', ok1, 'every unlink targets a file name taken from to_evict only' if ok1 else
                    'an unlink targets something other than an element of to_evict: %s' % [sorted(plan_fields(arg_role(q.E[e][2], 'path'))) for e in rm][:3]))
    ok2 = bool(st) and all(plan_fields(arg_role(q.E[e][2], 'path')) == {'f%d' % fi['to_move_back']} and cls_of(q.E[e][2]) == 'meta_times' for e in st)
    out.append(inst('G4', 'reprieved entries are re-stamped', ok2, 'every re-stamp targets a file name taken from to_move_back only' if ok2 else
                    'a re-stamp targets something other than an element of to_move_back, or is not a full (atime, mtime) stamp'))
    nexts = q.edges(lambda ev: ev['k'] == 'ext' and ev['path'].endswith('::next') and plan_fields(ev['args'][0]))
    # (directly in a `for`, or through a generic `I: Iterator` when the loop is written with an iterator driver)
    okf = bool(nexts) and all(q.E[e][2]['path'] in ('<std::vec::IntoIter as std::iter::Iterator>::next', 'std::iter::Iterator::next') and
                              not any(VAL[s][0] == 'sym' and VAL[s][1] == 'app' and 'rev' in VAL[s][2].lower() for s in values.subs(q.E[e][2]['args'][0])) for e in nexts)
    out.append(inst('G4', 'plan order', okf, 'both plan vectors are walked front to back' if okf else
                    'a plan vector is not applied in plan order (%s)' % sorted({q.E[e][2]['path'] for e in nexts})))
    # "deletes exactly as many files as needed": the evictions do not depend on the reprieves succeeding -- no unlink of
    # an evictee comes after a re-stamp (whose failure, e.g. on a file we do not own, aborts what follows it)
    late = q.never_after(st, rm)
    out.append(inst('G4', 'evictions before reprieves', bool(rm) and bool(st) and not late,
                    'every eviction is performed before the first re-stamp: a failed reprieve cannot leave the directory over capacity' if rm and st and not late else
                    'an eviction is performed after a re-stamp: one reprieve that fails (EPERM, ELOOP, ...) aborts the pruning before anything is deleted',
                    path=witness_path(q, late[0][1]) if late else []))
    dirs_ok = all(path_class(ctx, q, arg_role(q.E[e][2], 'path')).startswith('Value/Listed') for e in rm + st)
    out.append(inst('G4', 'directory', dirs_ok, 'all of it inside prune\'s directory parameter' if dirs_ok else 'maintenance touches a path outside the pruned directory'))
    return out


def run(ctx):
    from runner import collect
    return collect(ctx, g1, g2, g3, g4, g5)
