"""C09 -- reads mark entries as used without reordering; writes enqueue them fresh (DESIGN §5 C09)."""
import prims
import values
from values import VAL, show
from runner import inst
from rules import sites
from rules.common import (tags_of, cls_of, witness_path, arg_role, obj_root, outcomes, path_class, strip_view)
from graph import path_brief

EXPLANATION = ('What the code asks the filesystem for, on every path: (R09.1) the call-graph effect closure of every lookup/touch '
               'entry point is within {stat, open read-only, set-atime, utimens-by-handle}; (R09.2) utimens-by-handle passes None '
               'for mtime and an atime derived from that handle\'s own mtime or from now; set_file_atime passes now; (R09.3) in the '
               'lookup, after open:Ok every path to the hit exit runs the re-touch probe; after a successful stat every such path '
               'tests a predicate implied by atime < mtime (decided over the three orderings), and on its true edge the atime update '
               'follows; (R09.4) the insertion stamp is utimens(source, atime = from_unix_time(secs(now) - D, nanos(now)), mtime = '
               'now) with D a constant >= 3 s; (R09.5) put on an existing key touches it (= R04.2); (R09.7) in put, the only effects whose object is (directory + key) are the exclusive link and the atime touch: no rename onto it, utimens with an mtime, chmod, writable open or unlink; (R09.8) after the source received its insertion stamp no other file of the directory is re-stamped before the publish (maintenance runs before the stamp, so the new entry is the newest); (R09.6) the read mark maintenance tests is true for atime == mtime, which is what a touch may leave on a coarse-granularity filesystem. Timestamp behaviour of real '
               'filesystems is not decided.')
FLOORS = {'R09.9': 4, 'R09.8': 2, 'R09.7': 3, 'R09.6': 1, 'R09.1': 8, 'R09.2': 2, 'R09.3': 4, 'R09.4': 2, 'R09.5': 1}

LOOKUPS = ['plain::Cache::get', 'plain::Cache::touch', 'sharded::Cache::get', 'sharded::Cache::touch', 'raw_cache::touch',
           'raw_cache::ensure_file_touched']
ALLOWED = {'probe', 'open_ro', 'meta_atime', 'meta_times_h'}


def mentions_app(v, path):
    return v is not None and any(VAL[s][0] == 'sym' and VAL[s][1] == 'app' and VAL[s][2] == path for s in values.subs(v))


def r09_1(ctx):
    out = []
    m = ctx.cachedir_methods()
    entries = [(p, ctx.helper(p) if p in ctx.HELPERS else ctx.key_of(p)) for p in LOOKUPS] + [('cachedir.get', m['get']), ('cachedir.touch', m['touch'])]
    for name, k in entries:
        eff = ctx.cg.effects(k) & (prims.FS_CLASSES | {'UNCLASSIFIED'})
        bad = eff - ALLOWED
        out.append(inst('R09.1', name, not bad, 'effects %s' % sorted(eff) if not bad else
                        'a lookup/touch can reach %s (may move mtime, content or mode)' % sorted(bad)))
    return out


def r09_2(ctx):
    out = []
    k = ctx.helper('raw_cache::ensure_file_touched')
    q = ctx.explore(k)
    E = q.prim_edges('meta_times_h')
    ok = bool(E)
    why = []
    for e in E:
        ev = q.E[e][2]
        mt, at, h = arg_role(ev, 'mtime'), arg_role(ev, 'atime'), arg_role(ev, 'handle')
        tm = VAL[mt] if mt is not None else None
        if not (tm is not None and tm[0] == 'agg' and tm[1] == 'std::option::Option' and tm[2] == 'v0'):
            ok = False
            why.append('mtime operand is %s, not None' % show(mt))
        # the re-touch stores atime := the file's own mtime: that sets the read mark (atime >= mtime) whatever the
        # reader's clock says.  "now" would leave atime < mtime for an entry stamped by a host whose clock is ahead
        good_at = mentions_app(at, 'filetime::FileTime::from_last_modification_time') and obj_root(h) in values.subs(at) \
            and not mentions_app(at, 'filetime::FileTime::now')
        if not good_at:
            ok = False
            why.append('atime operand %s is not this file\'s own mtime (with "now" the read mark is lost when the entry\'s mtime is ahead of the reader\'s clock)' % show(at, 4)[:100])
    out.append(inst('R09.2', 'handle re-touch', ok, 'set_file_handle_times(file, Some(mtime of the same file), None)' if ok else '; '.join(why)))
    k = ctx.helper('raw_cache::touch')
    q = ctx.explore(k)
    E = q.prim_edges({'meta_atime', 'meta_times', 'meta_times_h'})
    ok = bool(E) and all(cls_of(q.E[e][2]) == 'meta_atime' and mentions_app(arg_role(q.E[e][2], 'atime'), 'filetime::FileTime::now') for e in E)
    out.append(inst('R09.2', 'explicit touch', ok, 'touch sets atime only, to now' if ok else
                    'touch uses %s' % [q.E[e][2]['path'] for e in E]))
    return out


def implied_by_atime_lt_mtime(ev):
    """branch edge on a comparison of (atime, mtime) whose truth is implied by atime < mtime."""
    if ev['k'] != 'branch' or 'eq' not in ev:
        return None
    from rules.common import norm_cmp
    nc = norm_cmp(VAL[ev['val']])
    if nc is None:
        return None
    op, a, b = nc
    a_at = mentions_app(a, 'filetime::FileTime::from_last_access_time') or mentions_app(a, 'std::fs::Metadata::accessed')
    a_mt = mentions_app(a, 'filetime::FileTime::from_last_modification_time') or mentions_app(a, 'std::fs::Metadata::modified')
    b_at = mentions_app(b, 'filetime::FileTime::from_last_access_time') or mentions_app(b, 'std::fs::Metadata::accessed')
    b_mt = mentions_app(b, 'filetime::FileTime::from_last_modification_time') or mentions_app(b, 'std::fs::Metadata::modified')
    if a_at and b_mt and not a_mt and not b_at:
        rel = {'Lt': lambda o: o < 0, 'Le': lambda o: o <= 0, 'Gt': lambda o: o > 0, 'Ge': lambda o: o >= 0, 'Eq': lambda o: o == 0, 'Ne': lambda o: o != 0}[op]
    elif a_mt and b_at and not a_at and not b_mt:
        rel0 = {'Lt': lambda o: o < 0, 'Le': lambda o: o <= 0, 'Gt': lambda o: o > 0, 'Ge': lambda o: o >= 0, 'Eq': lambda o: o == 0, 'Ne': lambda o: o != 0}[op]
        rel = lambda o: rel0(-o)
    else:
        return None
    # orderings of (atime ? mtime): -1, 0, 1 ; predicate P(o) = (rel(o) == eq)
    P = {o: (rel(o) == bool(ev['eq'])) for o in (-1, 0, 1)}
    return P


def r09_3(ctx):
    out = []
    m = ctx.cachedir_methods()
    q = ctx.explore(m['get'])
    opens = q.prim_edges('open_ro')
    hits = q.terminals(lambda ev: ev['k'] == 'ret' and ev.get('variant') == 'Ok' and ev.get('variant2') == 'Some')
    open_res = {q.E[o][2]['res'] for o in opens}
    stats = [e for e in q.prim_edges('probe') if 'handle' in prims.classify(q.E[e][2]['path'])[1] and arg_role(q.E[e][2], 'handle') is not None
             and (values.subs(arg_role(q.E[e][2], 'handle')) & open_res)]
    esc = q.must_follow(outcomes(q, opens, 'Ok'), stats, hits)
    out.append(inst('R09.3', 'retouch exists', bool(stats) and not esc, 'after open:Ok every path to the hit exit stats the handle for the re-touch' if stats and not esc else
                    'a successful lookup can return without the explicit re-touch (atime is then left to the mount\'s policy)'))
    tests = []
    covering = []
    for i, (a, b, ev) in enumerate(q.E):
        if ev is None:
            continue
        P = implied_by_atime_lt_mtime(ev)
        if P is not None:
            tests.append(i)
            if P[-1]:      # true when atime < mtime
                covering.append(i)
    esc = q.must_follow(outcomes(q, stats, 'Ok'), tests, hits)
    out.append(inst('R09.3', 'condition tested', bool(tests) and not esc, 'after a successful stat every path to the hit exit compares atime with mtime' if tests and not esc else
                    'the re-touch no longer depends on an atime/mtime comparison on every path'))
    touch = q.prim_edges({'meta_times_h', 'meta_atime'})
    esc = q.must_follow(covering, touch, hits)
    # edges taken when atime < mtime but that do not lead to a touch
    notcov = [i for i in tests if not implied_by_atime_lt_mtime(q.E[i][2])[-1]]
    reach_touch_from_notcov = []
    out.append(inst('R09.3', 'covers atime<mtime', bool(covering) and not esc,
                    'on the edge taken when atime < mtime the atime update follows before the exit' if covering and not esc else
                    'when atime < mtime (entry not marked as read) the lookup does not update atime'))
    # consistency with the read mark used by maintenance: not accessed (atime < mtime) => touched
    out.append(inst('R09.3', 'touch only moves atime', all(cls_of(q.E[e][2]) in ('meta_times_h', 'meta_atime') for e in touch) and bool(touch),
                    'the re-touch uses an atime-only primitive'))
    return out


SUBS = ('core::num::saturating_sub', 'core::num::wrapping_sub', 'core::num::checked_sub', 'core::num::overflowing_sub')


def r09_4(ctx):
    out = []
    m = ctx.cachedir_methods()
    for role in ('set', 'put'):
        q = ctx.explore(m[role])
        E = [e for e in q.prim_edges('meta_times') if path_class(ctx, q, arg_role(q.E[e][2], 'path')) == 'Value']
        ok = bool(E)
        why = []
        for e in E:
            ev = q.E[e][2]
            at, mt = arg_role(ev, 'atime'), arg_role(ev, 'mtime')
            tm = VAL[mt]
            if not (tm[0] == 'sym' and tm[1] == 'app' and tm[2] == 'filetime::FileTime::now'):
                ok = False
                why.append('mtime operand is %s, not now' % show(mt, 3)[:80])
            ta = VAL[at]
            good = False
            if ta[0] == 'sym' and ta[1] == 'app' and ta[2] == 'filetime::FileTime::from_unix_time' and len(ta) > 5:
                secs = VAL[ta[4]]
                if secs[0] == 'sym' and secs[1] == 'app' and secs[2] in SUBS and len(secs) > 5:
                    x, d = secs[4], VAL[secs[5]]
                    if mentions_app(x, 'filetime::FileTime::now') and d[0] == 'int' and int(d[1]) >= 3:
                        good = True
                elif secs[0] == 'sym' and secs[1] == 'bin' and secs[2] == 'Sub':
                    x, d = secs[3], VAL[secs[4]]
                    if mentions_app(x, 'filetime::FileTime::now') and d[0] == 'int' and int(d[1]) >= 3:
                        good = True
            if not good:
                ok = False
                why.append('atime operand %s is not from_unix_time(secs(now) - D, ..) with constant D >= 3' % show(at, 4)[:140])
        out.append(inst('R09.4', 'cachedir.%s' % role, ok, 'insertion stamp (atime, mtime) = (now - D, now), D >= 3 s, on the private source' if ok else '; '.join(sorted(set(why)))))
    return out


def r09_5(ctx):
    from rules import c04
    return [inst('R09.5', i['key'].split('|', 1)[1], i['ok'], i['detail']) for i in c04.r04_2(ctx) if 'touch' in i['key']]


def r09_6(ctx):
    """marking is effective: the touches stamp atime = the file's own mtime, or now (which on a coarse-granularity
    filesystem can equal mtime), so the read mark recognised by maintenance must hold for atime == mtime."""
    from rules import c07
    out = []
    for i in c07.g2(ctx):
        if 'accessed' in i['key']:
            out.append(inst('R09.6', 'read mark true for atime == mtime', i['ok'], i['detail'] if i['ok'] else
                            'after a touch atime may equal mtime (same timestamp granule), but ' + i['detail']))
    return out


def r09_7(ctx):
    """put never moves or rewrites what is at (directory + key): on every path of the cache-directory put and of the
    public put operations, the only filesystem effects whose object is the destination name are the exclusive link and
    the atime touch.  A rename onto it, a utimens with an mtime, a chmod, a writable open or an unlink would change the
    content or the queue position of an entry that was already there."""
    out = []
    m = ctx.cachedir_methods()
    entries = [('cachedir.put', m['put'])] + [(p, ctx.key_of(p)) for p in ('plain::Cache::put', 'sharded::Cache::put')]
    harmless = {'publish_excl', 'meta_atime'}
    for name, k in entries:
        q = ctx.explore(k)
        bad = []
        seen = 0
        for e in q.prim_edges(prims.MUTATING | {'publish_replace', 'publish_excl', 'ns_remove_file'}):
            ev = q.E[e][2]
            c = cls_of(ev)
            obj = arg_role(ev, 'dst') if c in ('publish_replace', 'publish_excl') else (arg_role(ev, 'path') if arg_role(ev, 'path') is not None else arg_role(ev, 'handle'))
            if obj is None:
                continue
            pc = path_class(ctx, q, obj)
            if pc not in ('Base/Key', 'Handle(Base/Key)'):
                continue
            seen += 1
            if c == 'meta_times_h' and VAL[arg_role(ev, 'mtime')][0:3] == ('agg', 'std::option::Option', 'v0'):
                continue
            if c not in harmless:
                bad.append((e, c, pc))
        ok = seen > 0 and not bad
        out.append(inst('R09.7', name, ok, 'the destination name is only ever linked to (exclusive) or atime-touched (%d effects on it)' % seen if ok else
                        ('put can apply %s to %s: an entry already there would lose its content or queue position' % (bad[0][1], bad[0][2]) if bad else
                         'no effect on (directory + key) found in put (anchor lost)'),
                        path=witness_path(q, bad[0][0]) if bad else []))
    return out


def r09_8(ctx):
    """the inserted entry carries the newest queue position in its directory: once the source has been given its
    insertion stamp (mtime = now), the same operation stamps no other file of the directory with a later "now" before the
    publish -- i.e. the maintenance that re-stamps reprieved entries never runs between the stamp and the publish."""
    out = []
    m = ctx.cachedir_methods()
    for role in ('set', 'put'):
        q = ctx.explore(m[role])
        stamp = [e for e in q.prim_edges('meta_times') if path_class(ctx, q, arg_role(q.E[e][2], 'path')) == 'Value']
        restamp = [e for e in q.prim_edges({'meta_times', 'meta_times_h'}) if e not in stamp
                   and path_class(ctx, q, arg_role(q.E[e][2], 'path') if arg_role(q.E[e][2], 'path') is not None else arg_role(q.E[e][2], 'handle')) not in ('Value',)
                   and arg_role(q.E[e][2], 'mtime') is not None and VAL[arg_role(q.E[e][2], 'mtime')][0:3] != ('agg', 'std::option::Option', 'v0')]
        late = q.never_after(outcomes(q, stamp, 'Ok'), restamp)
        ok = bool(stamp) and not late
        out.append(inst('R09.8', 'cachedir.%s' % role, ok,
                        'no other file is given a fresh modification time after the source got its insertion stamp (%d re-stamp sites, all before)' % len(restamp) if ok else
                        ('%s stamps another file (%s) with a fresh mtime after the new entry\'s own stamp: survivors of that maintenance are newer than the entry just written'
                         % (role, q.E[late[0][1]][2]['site'][2]) if late else 'insertion stamp not found'),
                        path=witness_path(q, late[0][1]) if late else []))
    return out


def r09_9(ctx):
    """a put onto a key that already lives in the *other* candidate shard must find it (and touch it) instead of
    inserting a second copy: the sharded writes probe the alternate shard on the filesystem before every publish,
    whatever the in-memory load estimates say (shared with R11.2)."""
    from rules import c11
    return [inst('R09.9', i['key'].split('|', 1)[1], i['ok'], i['detail'], path=i.get('path') or []) for i in c11.r11_2(ctx)]


def run(ctx):
    from runner import collect
    return collect(ctx, r09_1, r09_2, r09_3, r09_4, r09_5, r09_6, r09_7, r09_8, r09_9)
