"""End-to-end (fully inlined) variants of the layered rules, for the thorough tier.

The stacked entry points are explored with dyn dispatch specialised to one write-side implementor
(plain / sharded) and one read-side implementor, so the whole operation -- stack logic, cache
directory protocol, maintenance -- is one state graph and the rules speak about primitives directly,
without the composition argument of the layered mode."""
import prims
import values
from values import VAL, show
from runner import inst
from rules.common import (cls_of, witness_path, arg_role, obj_root, outcomes, is_temp_object, callback_kind, unrewound,
                          obj_handle_root, strip_view)
from rules.c15 import stack_entries


def configs(ctx):
    wt, rt = ctx.role('write_trait'), ctx.role('read_trait')
    w_impls = [imp['self_ty_s'] for imp in ctx.traits[wt]['impls']]
    r_impls = [imp['self_ty_s'] for imp in ctx.traits[rt]['impls']]
    out = []
    for w in w_impls:
        for chk in ('none', 'some'):
            out.append((w, r_impls[0], chk))
    return out


def explore_full(ctx, k, w, r, chk, auto_sync=True):
    wt, rt = ctx.role('write_trait'), ctx.role('read_trait')
    return ctx.explore(k, mode='full', facts=ctx.spec_facts(k, checker=chk, write_side='some'),
                       heap=ctx.auto_sync_heap(k, auto_sync), tag='e2e-%s-%s-%s-%s' % (w, r, chk, auto_sync),
                       dyn_force={wt: w, rt: r}, max_nodes=2500000)


def publishing(ctx):
    return [(n, k) for n, k in stack_entries(ctx) if ctx.cg.effects(k) & {'publish_replace', 'publish_excl'}]


def e03(ctx):
    """sync:Ok on the published object dominates the publish primitive itself; so does fchmod 0444 for temp files."""
    out = []
    for name, k in publishing(ctx):
        for (w, r, chk) in configs(ctx):
            q = explore_full(ctx, k, w, r, chk)
            pubs = q.prim_edges({'publish_replace', 'publish_excl'})
            syncs = q.prim_edges('sync')
            bad = []
            for b in pubs:
                src = obj_root(arg_role(q.E[b][2], 'src'))
                S = [e for e in syncs if obj_root(arg_role(q.E[e][2], 'handle')) == src]
                A = outcomes(q, S, 'Ok')
                if q.must_precede(A, [b]):
                    bad.append((b, A))
            label = '%s|write=%s|checker=%s' % (name, w, chk)
            out.append(inst('E03.1', label, not bad and bool(pubs),
                            '%d publish primitives, each dominated by sync:Ok on its own source (fully inlined)' % len(pubs) if not bad else
                            'with auto_sync, %s publishes a file that was not flushed' % q.E[bad[0][0]][2]['site'][2],
                            path=witness_path(q, bad[0][0], blocked=bad[0][1])[-14:] if bad else []))
    return out


def e01(ctx):
    """for temp files the stacked cache creates: content write Ok dominates the publish primitive; no write after it."""
    out = []
    for name, k in publishing(ctx):
        for (w, r, chk) in configs(ctx):
            q = explore_full(ctx, k, w, r, chk)
            pubs = [b for b in q.prim_edges({'publish_replace', 'publish_excl'}) if is_temp_object(obj_root(arg_role(q.E[b][2], 'src')))]
            if not pubs:
                continue
            bad = []
            late = []
            for b in pubs:
                root = obj_root(arg_role(q.E[b][2], 'src'))

                def wpred(ev):
                    if ev['k'] == 'ext' and cls_of(ev) == 'content_write':
                        return obj_root(arg_role(ev, 'handle')) == root
                    if ev['k'] == 'usercb' and callback_kind(ctx, q, ev) == 'populate':
                        return bool(ev['args']) and obj_root(ev['args'][0]) == root
                    return False
                W = q.edges(wpred)
                A = outcomes(q, W, 'Ok')
                if not W or q.must_precede(A, [b]):
                    bad.append((b, A))
                if q.never_after([b], W):
                    late.append(b)
            label = '%s|write=%s|checker=%s' % (name, w, chk)
            out.append(inst('E01.3', label, not bad and not late,
                            '%d publishes of library-created temp files: written (Ok) before, never after' % len(pubs) if not bad and not late else
                            'a library-created temp file is published before its content write completed, or written afterwards',
                            path=witness_path(q, bad[0][0], blocked=bad[0][1])[-14:] if bad else []))
    return out


def e19(ctx):
    """rewind typestate with everything inlined: returned handles are real read-only opens."""
    out = []
    entries = [(n, k) for n, k in stack_entries(ctx) if ctx.B[k]['name'] in ('get', 'ensure', 'get_or_update')]
    for name, k in entries:
        for (w, r, chk) in configs(ctx):
            q = explore_full(ctx, k, w, r, chk)
            oks = q.terminals(lambda ev: ev['k'] == 'ret' and ev.get('variant') == 'Ok')
            by_root = {}
            origins = set()
            for t in oks:
                ev = q.g.term[t]
                h = ev['payload2'][0] if ev.get('variant2') == 'Some' else (ev['payload'][0] if ev.get('variant2') is None and ev.get('payload') else None)
                if h is None or VAL[h][0] != 'sym':
                    continue
                root = obj_handle_root(h)
                by_root.setdefault(root, []).append(t)
                tr = VAL[root]
                origins.add(prims.classify(tr[2])[0] if tr[0] == 'sym' and tr[1] == 'app' else 'other')
            bad_all = []
            for root, ts in by_root.items():
                bad, D, S = unrewound(ctx, q, root, ts)
                if bad:
                    bad_all.append(bad[0])
            label = '%s|write=%s|checker=%s' % (name, w, chk)
            ok = bool(by_root) and not bad_all and origins <= {'open_ro', 'temp_create_anon'}
            out.append(inst('E19.2', label, ok,
                            '%d returned handle origins %s, all rewound after their last consumer (fully inlined)' % (len(by_root), sorted(origins)) if ok else
                            'returned handle not rewound or of foreign origin %s' % sorted(origins),
                            path=witness_path(q, bad_all[0])[-14:] if bad_all else []))
    return out
