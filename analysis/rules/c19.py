"""C19 -- cached data is exposed read-only and from the start (DESIGN §5 C19)."""
import prims
import values
from values import VAL, show
from runner import inst
from rules.common import (tags_of, cls_of, witness_path, arg_role, obj_root, outcomes, path_class, strip_view, callback_kind,
                          is_temp_object, unrewound, obj_handle_root, is_seek_start0, unfold_const_fn)
from rules.c13 import entry, ro_entry
from rules.c15 import stack_entries
from graph import path_brief

EXPLANATION = ('(R19.1) at every Ok exit of every lookup-like API (plain, sharded, cache-directory, stacked, read-only) the '
               'returned handle is the payload of a read-only open (or of an abstract write/read-side lookup, themselves covered), '
               'the single exemption being the anonymous temp file returned on a miss without a write side; (R19.2) rewind '
               'typestate, for every specialisation (checker x write side) of the stacked/read-only APIs: no path on which the '
               'returned handle was consumed (lent to a checker or judge, copied from, read) reaches its Ok exit without a '
               'successful seek(Start(0)) in between; (R19.3) the finalizer chmods the temp file through its handle to the constant '
               '0o444 before any Ok exit, every insert of a temp file by the stacked cache is dominated by that chmod:Ok, and the '
               'publish bodies set readonly=true before publishing (C03 R03.4). umask handling inside the kernel is not decided.')
FLOORS = {'R19.1': 7, 'R19.2': 14, 'R19.3': 6, 'R19.4': 3}


def r19_1(ctx):
    out = []
    m = ctx.cachedir_methods()
    lower = [('cachedir.get', m['get']), ('plain::Cache::get', ctx.key_of('plain::Cache::get')), ('sharded::Cache::get', ctx.key_of('sharded::Cache::get'))]
    for name, k in lower:
        q = ctx.explore(k)
        hits = q.terminals(lambda ev: ev['k'] == 'ret' and ev.get('variant') == 'Ok' and ev.get('variant2') == 'Some')
        bad = []
        for t in hits:
            h = strip_view(values.mut_root(q.g.term[t]['payload2'][0]))
            th = VAL[h]
            if not (th[0] == 'sym' and th[1] == 'app' and prims.classify(th[2])[0] == 'open_ro'):
                bad.append(t)
        out.append(inst('R19.1', name, bool(hits) and not bad, 'every returned handle is the payload of a read-only open (%d hit exits)' % len(hits) if hits and not bad else
                        'a lookup returns a handle that does not come from a read-only open'))
    wt, rt = ctx.role('write_trait'), ctx.role('read_trait')
    stack = [(n, k) for n, k in stack_entries(ctx) if ctx.B[k]['name'] in ('get', 'ensure', 'get_or_update')] + [ro_entry(ctx, 'get')]
    for name, k in stack:
        q = ctx.explore(k, mode='layer')
        oks = q.terminals(lambda ev: ev['k'] == 'ret' and ev.get('variant') == 'Ok')
        bad = []
        n = 0
        for t in oks:
            ev = q.g.term[t]
            h = ev.get('payload2', [None])[0] if ev.get('variant2') == 'Some' else (ev['payload'][0] if ev.get('variant2') is None else None)
            if h is None:
                continue
            n += 1
            r = strip_view(values.mut_root(h))
            tr = VAL[r]
            ok = tr[0] == 'sym' and tr[1] == 'app' and (tr[2].startswith('trait::%s::' % wt) or tr[2].startswith('trait::%s::' % rt) or
                                                         prims.classify(tr[2])[0] == 'open_ro' or prims.classify(tr[2])[0] == 'temp_create_anon')
            if not ok:
                bad.append(t)
        out.append(inst('R19.1', name, n > 0 and not bad, 'returned handles come from lookups / read-only opens / the anonymous miss file (%d exits)' % n if n and not bad else
                        'a returned handle has another origin: %s' % (show(q.g.term[bad[0]]['val'], 4)[:120] if bad else 'no exit')))
    return out


def r19_4(ctx):
    """the lower layer hands out its handle untouched: between the open and the hit exit of the cache-directory /
    plain / sharded lookup nothing reads from, seeks on, or reads through a duplicate (dup shares the file offset) of
    the handle that is returned -- unless it is rewound afterwards."""
    out = []
    m = ctx.cachedir_methods()
    lower = [('cachedir.get', m['get']), ('plain::Cache::get', ctx.key_of('plain::Cache::get')), ('sharded::Cache::get', ctx.key_of('sharded::Cache::get'))]
    for name, k in lower:
        q = ctx.explore(k)
        hits = q.terminals(lambda ev: ev['k'] == 'ret' and ev.get('variant') == 'Ok' and ev.get('variant2') == 'Some')
        by_root = {}
        for t in hits:
            by_root.setdefault(obj_handle_root(q.g.term[t]['payload2'][0]), []).append(t)
        bad_all = []
        for root, ts in by_root.items():
            bad, D, S = unrewound(ctx, q, root, ts)
            if bad:
                bad_all.append(bad[0])
        out.append(inst('R19.4', name, bool(hits) and not bad_all,
                        'the returned handle is never read from, seeked, or read through a duplicate before the hit exit (%d exits)' % len(hits) if hits and not bad_all else
                        ('the handle is consumed at %s (directly or through a dup, which shares the offset) and returned without a rewind' % q.E[bad_all[0]][2]['site'][2]) if bad_all else 'no hit exit',
                        path=witness_path(q, bad_all[0]) if bad_all else []))
    return out


def returned_handle(ev):
    if ev.get('variant') != 'Ok':
        return None
    if ev.get('variant2') == 'Some':
        return ev['payload2'][0]
    if ev.get('variant2') is None and ev.get('payload'):
        return ev['payload'][0]
    return None


def r19_2(ctx):
    out = []
    stack = [(n, k) for n, k in stack_entries(ctx) if ctx.B[k]['name'] in ('get', 'ensure', 'get_or_update')] + [ro_entry(ctx, 'get')]
    for name, k in stack:
        is_stack = ctx.T[ctx.B[k]['impl_self_ty']].get('adt') == ctx.role('stack_cache')
        specs = [('checker', {'checker': 'some'}), ('no checker', {'checker': 'none'})]
        if is_stack:
            specs = [('%s, write side %s' % (c, w), dict(cs, write_side=w)) for (c, cs) in specs for w in ('some', 'none')]
        for label, spec in specs:
            q = ctx.explore(k, mode='layer', facts=ctx.spec_facts(k, **spec), tag='r19-' + label)
            oks = q.terminals(lambda ev: ev['k'] == 'ret' and ev.get('variant') == 'Ok')
            by_root = {}
            for t in oks:
                h = returned_handle(q.g.term[t])
                if h is None or VAL[h][0] not in ('sym',):
                    continue
                by_root.setdefault(obj_handle_root(h), []).append(t)
            bad_all = []
            nd = 0
            for root, ts in by_root.items():
                bad, D, S = unrewound(ctx, q, root, ts)
                nd += len(D)
                if bad:
                    bad_all.append((root, bad))
            out.append(inst('R19.2', '%s|%s' % (name, label), bool(by_root) and not bad_all,
                            '%d returned handle origins; every consumer (%d sites) is followed by seek(Start(0)):Ok before the exit' % (len(by_root), nd)
                            if by_root and not bad_all else
                            ('a handle consumed at %s is returned without being rewound' % q.E[bad_all[0][1][0]][2]['site'][2]) if bad_all else 'no Ok exit returning a handle',
                            path=witness_path(q, bad_all[0][1][0]) if bad_all else []))
    return out


def r19_3(ctx):
    out = []
    def mode_0444(ev):
        mode = unfold_const_fn(ctx, arg_role(ev, 'mode'))
        t = VAL[mode] if mode is not None else None
        return t is not None and t[0] == 'sym' and t[1] == 'app' and t[2].endswith('PermissionsExt>::from_mode') and VAL[t[4]] == ('int', str(0o444))
    for fk in ctx.role('finalizers'):
        q = ctx.explore(fk)
        oks = q.terminals(lambda ev: ev['k'] == 'ret' and ev.get('variant') == 'Ok')
        P = [e for e in q.prim_edges('meta_perm') if 'handle' in prims.classify(q.E[e][2]['path'])[1]]
        if not P:
            continue     # not every helper of that shape chmods; what matters is the per-insert rule below
        good = [e for e in P if mode_0444(q.E[e][2])]
        A = outcomes(q, good, 'Ok')
        r = q.reach_fwd([q.g.entry], blocked=A)
        bad = [t for t in oks if t in r]
        out.append(inst('R19.3', 'finalizer %s|0444' % ctx.B[fk]['name'], bool(good) and not bad and len(good) == len(P),
                        'the finalizer fchmods the temp file to the explicit mode 0o444 before any Ok exit' if good and not bad and len(good) == len(P) else
                        'the finalizer does not set mode 0o444 through the handle before succeeding (modes seen: %s)' % [show(arg_role(q.E[e][2], 'mode'), 3) for e in P]))
    # every temp-file insert by the stacked cache is dominated by that chmod
    wt = ctx.role('write_trait')
    ins = ctx.insert_methods()
    for name, k in stack_entries(ctx):
        ql = ctx.explore(k, mode='layer')
        B = ql.edges(lambda ev: ev['k'] == 'traitcall' and ev['trait'] == wt and ins.get(ev['method']) in ('set', 'put'))
        temp_inserts = [b for b in B if VAL[strip_view(values.mut_root(ql.E[b][2]['args'][2]))][0] == 'sym' and
                        (is_temp_object(obj_root(ql.E[b][2]['args'][2])) or 'NamedTempFile' in ctx.T[ctx.B[k]['locals'][int(VAL[obj_root(ql.E[b][2]['args'][2])][2])]['ty']]['s']
                         if VAL[obj_root(ql.E[b][2]['args'][2])][1] == 'param' else is_temp_object(obj_root(ql.E[b][2]['args'][2])))]
        if not temp_inserts:
            continue
        bad_all = []
        for b in temp_inserts:
            root = obj_root(ql.E[b][2]['args'][2])
            Pm = [e for e in ql.prim_edges('meta_perm') if 'handle' in prims.classify(ql.E[e][2]['path'])[1] and
                  obj_root(arg_role(ql.E[e][2], 'handle')) == root and mode_0444(ql.E[e][2])]
            Am = outcomes(ql, Pm, 'Ok')
            if ql.must_precede(Am, [b]):
                bad_all.append((b, Am))
        out.append(inst('R19.3', name + '|finalized before insert', not bad_all,
                        '%d temp-file inserts, each dominated by fchmod(0o444):Ok on that file' % len(temp_inserts) if not bad_all else
                        'a temp file is inserted into the write cache without having been set to mode 0444',
                        path=witness_path(ql, bad_all[0][0], blocked=bad_all[0][1]) if bad_all else []))
    from rules import c03
    for i in c03.r03_lower(ctx):
        if i['rule'] == 'R03.4':
            out.append(inst('R19.3', 'write bits stripped|' + i['key'].split('|', 1)[1], i['ok'], i['detail'], path=i['path']))
    return out


def run(ctx):
    from runner import collect
    return collect(ctx, r19_1, r19_2, r19_3, r19_4)


THOROUGH_FLOORS = {'E19.2': 8}


def run_thorough(ctx):
    from runner import collect
    from rules import e2e
    return collect(ctx, e2e.e19)
