"""C17 -- maintenance deletes only cache entries and stale temporary files (DESIGN §5 C17)."""
import prims
import values
from values import VAL, show
from runner import inst
from rules.common import tags_of, cls_of, path_class, witness_path, arg_role
from graph import path_brief

EXPLANATION = ('(R17.1) every removal call site in the crate is a file unlink: no directory-removal primitive exists; '
               '(R17.2) on the state graph of raw_cache::prune, the push that adds a listed entry to the eviction candidates '
               'handed to the planner is dominated by the is_dir==false outcome on that entry\'s metadata AND by the reject '
               'edge of a dot-prefix test (or the name validator) on that entry\'s file name; (R17.3) in the temp-directory '
               'cleanup the unlink is dominated by the true edge of mtime < now - C (or an equivalent ordering) on the modification time of the very entry being unlinked, with C the '
               'evaluated constant >= 3600 s in the library configuration; (R17.4) the cleanup\'s only mutating primitive is '
               'unlink(temp dir + listed name), and maintenance\'s are unlink / re-stamp of (directory + listed name).')
FLOORS = {'R17.1': 2, 'R17.2': 2, 'R17.3': 3, 'R17.4': 2}
FIXTURE_RULES = ['R17.1']


def r17_1(ctx):
    out = []
    for k, calls in ctx.cg.ext_calls.items():
        for (np, cls, site) in calls:
            if cls in ('ns_remove_file', 'ns_remove_dir'):
                ok = cls == 'ns_remove_file'
                out.append(inst('R17.1', '%s|%s' % (ctx.B[k]['path'], np), ok,
                                '%s %s is a %s' % (site['span'], np, 'file unlink' if ok else 'DIRECTORY removal')))
    return out


def candidate_push_edges(ctx, q):
    """push events into the collection that becomes the planner's entries operand."""
    T = tags_of(ctx)
    sites = set()
    for (a, b, ev) in q.E:
        if ev is not None and ev['k'] == 'pure_local' and ev['path'] == T.planner_path and ev['args']:
            v = ev['args'][0]
            for s in values.subs(v):
                t = VAL[s]
                if t[0] == 'mu' and t[1].endswith('::push'):
                    st_ = VAL[t[2]]
                    sites.add((st_[1], st_[2]))
    return q.edges(lambda ev: ev['k'] == 'ext' and ev['path'].endswith('::push') and
                   (ev['site'][0], 'bb%d' % ev['site'][1]) in sites), sites


def mentions_app(v, path):
    return any(VAL[s][0] == 'sym' and VAL[s][1] == 'app' and VAL[s][2] == path for s in values.subs(v))


def r17_2(ctx):
    out = []
    T = tags_of(ctx)
    key = ctx.helper('raw_cache::prune')
    q = ctx.explore(key)
    B, sites = candidate_push_edges(ctx, q)
    if not B:
        return [inst('R17.2', 'candidates.push', False, 'cannot find the push that builds the planner\'s candidate list')]
    # is_dir == false on the entry's metadata
    A1 = q.edges(lambda ev: ev['k'] == 'branch' and ev.get('eq') == 0 and VAL[ev['val']][0] == 'sym' and
                 VAL[ev['val']][1] == 'app' and VAL[ev['val']][2] in ('std::fs::Metadata::is_dir', 'std::fs::FileType::is_dir'))
    A1 += q.edges(lambda ev: ev['k'] == 'branch' and ev.get('eq') == 1 and VAL[ev['val']][0] == 'sym' and
                  VAL[ev['val']][1] == 'app' and VAL[ev['val']][2] in ('std::fs::Metadata::is_file', 'std::fs::FileType::is_file'))
    bad = q.must_precede(A1, B)
    out.append(inst('R17.2', 'candidates.not_directory', not bad,
                    'candidate push dominated by is_dir == false' if not bad else
                    'a listed entry can become an eviction candidate without the is_dir test having answered false',
                    path=witness_path(q, bad[0], blocked=A1) if bad else []))

    # dot-prefix filter on the listed name
    def dot_reject(ev):
        if ev['k'] == 'branch':
            t = VAL[ev['val']]
            if t[0] == 'sym' and t[1] == 'app' and t[2] in ('core::str::starts_with', 'core::slice::starts_with'):
                pats = [VAL[x] for x in t[4:]]
                if mentions_app(ev['val'], 'std::fs::DirEntry::file_name') and \
                        any((p[0] == 'int' and int(p[1]) == 46) or (p[0] == 'str' and p[1] == '.') for p in pats):
                    return ev.get('eq') == 0
            # first byte compared against '.'
            if mentions_app(ev['val'], 'std::fs::DirEntry::file_name') and \
                    (mentions_app(ev['val'], 'core::slice::first') or mentions_app(ev['val'], 'core::slice::get')):
                if 'ne' in ev:
                    return 46 in ev['ne']
                if 'eq' in ev and t[0] == 'sym' and t[1] == 'cmp':
                    return False
        if ev['k'] == 'refine' and ev['vname'] == 'Ok':
            t = VAL[ev['val']]
            if t[0] == 'sym' and t[1] == 'app' and t[2] == T.validator_path and mentions_app(ev['val'], 'std::fs::DirEntry::file_name'):
                return True
        return False
    A2 = q.edges(dot_reject)
    bad = q.must_precede(A2, B)
    out.append(inst('R17.2', 'candidates.not_dot_prefixed', not bad,
                    'candidate push dominated by a dot-prefix reject edge on the listed name (%d edges)' % len(A2) if not bad else
                    'every non-directory entry of the directory becomes an eviction candidate, including application files '
                    'whose names start with "." (the crate documentation reserves that namespace for the application)',
                    path=witness_path(q, bad[0], blocked=A2) if bad else []))
    return out


def temp_cleanup_key(ctx):
    m = ctx.cachedir_methods()
    c = [k for k in m['maintain'] if 'meta_times' not in ctx.cg.effects(k) and ctx.B[k]['arg_count'] == 1]
    if len(c) != 1:
        from ctx import RoleError
        raise RoleError('temp cleanup method: expected one, found %s' % c)
    return c[0]


def duration_secs(ctx, name):
    c = ctx.facts['consts'].get(name)
    if not c or 'bytes' not in c['val']:
        return None
    b = bytes.fromhex(c['val']['bytes'])
    return int.from_bytes(b[:8], 'little')


def r17_3_4(ctx):
    out = []
    key = temp_cleanup_key(ctx)
    q = ctx.explore(key)
    rm = q.prim_edges('ns_remove_file')
    if not rm:
        return [inst('R17.3', 'tempcleanup.unlink', False, 'temp cleanup has no unlink')]
    # threshold = now - C
    consts = set()
    thr_terms = set()
    for (a, b, ev) in q.E:
        if ev is not None and ev['k'] == 'ext' and ev['path'] in ('std::time::SystemTime::checked_sub', 'std::time::SystemTime::sub',
                                                                  '<std::time::SystemTime as std::ops::Sub>::sub'):
            for x in ev['args']:
                t = VAL[x]
                if t[0] == 'sym' and t[1] == 'const':
                    consts.add(t[2])
    secs = [duration_secs(ctx, c) for c in consts]
    okc = len(consts) == 1 and secs[0] is not None and secs[0] >= 3600
    out.append(inst('R17.3', 'tempcleanup.age_constant', okc,
                    'age limit constant %s = %s s (library configuration), >= 3600' % (sorted(consts), secs) if okc else
                    'temp-file age limit is %s = %s s; the property requires one hour' % (sorted(consts), secs)))

    def is_mtime(v):
        return mentions_app(v, 'std::fs::Metadata::modified') or mentions_app(v, 'filetime::FileTime::from_last_modification_time')

    def is_thr(v):
        return mentions_app(v, 'std::time::SystemTime::checked_sub') or mentions_app(v, '<std::time::SystemTime as std::ops::Sub>::sub')

    def old_enough(ev):
        if ev['k'] != 'branch' or 'eq' not in ev:
            return False
        t = VAL[ev['val']]
        if not (t[0] == 'sym' and t[1] == 'cmp'):
            return False
        op, a, b = t[2], t[3], t[4]
        if is_mtime(a) and is_thr(b):
            want = {'Lt': 1, 'Le': 1, 'Ge': 0, 'Gt': 0}
        elif is_thr(a) and is_mtime(b):
            want = {'Gt': 1, 'Ge': 1, 'Le': 0, 'Lt': 0}
        else:
            return False
        return want.get(op) == ev['eq']
    A = q.edges(old_enough)

    # the modification time that is compared must be that of the very entry being unlinked (not, say, the directory's)
    def entries_of(v):
        # an element drawn from (an adapter over) a directory stream: `..::next(.. read_dir(..) ..)`
        if v is None:
            return set()
        return {x for x in values.subs(v) if VAL[x][0] == 'sym' and VAL[x][1] == 'app' and VAL[x][2].endswith('::next')
                and any(VAL[y][0] == 'sym' and VAL[y][1] == 'app' and prims.classify(VAL[y][2])[0] == 'list_dir' for y in values.subs(x))}
    rm_entries = set()
    for e in rm:
        rm_entries |= entries_of(arg_role(q.E[e][2], 'path'))

    def about_removed_entry(e):
        t = VAL[q.E[e][2]['val']]
        side = t[3] if is_mtime(t[3]) else t[4]
        return bool(entries_of(side) & rm_entries)
    A_all = A
    A = [e for e in A if about_removed_entry(e)]
    anycmp = q.edges(lambda ev: ev['k'] == 'branch' and VAL[ev['val']][0] == 'sym' and VAL[ev['val']][1] == 'cmp' and
                     (is_mtime(VAL[ev['val']][3]) or is_mtime(VAL[ev['val']][4])))
    out.append(inst('R17.3', 'tempcleanup.age_direction', bool(A),
                    'the age test is mtime < now - C (or equivalent): %d edges' % len(A) if A else
                    'no branch of the form "mtime older than now - C" found (%d mtime comparisons)' % len(anycmp)))
    bad = q.must_precede(A, rm)
    out.append(inst('R17.3', 'tempcleanup.age_dominates_unlink', not bad,
                    'every unlink in temp cleanup is dominated by the "older than the limit" edge on the unlinked entry\'s own mtime' if not bad else
                    'a temporary file can be unlinked without its own modification time having been found older than the age limit (%d age tests, %d about the entry)' % (len(A_all), len(A)),
                    path=witness_path(q, bad[0], blocked=A) if bad else []))
    # R17.4 provenance of what is removed / re-stamped
    seen = set()
    for e in q.prim_edges(prims.MUTATING):
        ev = q.E[e][2]
        c = cls_of(ev)
        pc = path_class(ctx, q, arg_role(ev, 'path'))
        if (c, pc) in seen:
            continue
        seen.add((c, pc))
        ok = (c == 'ns_remove_file' and pc == 'Temp/Listed')
        out.append(inst('R17.4', 'tempcleanup|%s|%s' % (c, pc), ok, '%s %s on %s' % (ev['site'][2], ev['path'], pc),
                        path=[] if ok else witness_path(q, e)))
    m = ctx.cachedir_methods()
    mk = [k for k in m['maintain'] if 'meta_times' in ctx.cg.effects(k) and ctx.B[k]['arg_count'] == 1]
    for k in mk:
        q2 = ctx.explore(k)
        seen = set()
        for e in q2.prim_edges(prims.MUTATING):
            ev = q2.E[e][2]
            c = cls_of(ev)
            pc = path_class(ctx, q2, arg_role(ev, 'path'))
            if (c, pc) in seen:
                continue
            seen.add((c, pc))
            ok = (c, pc) in (('ns_remove_file', 'Base/Listed'), ('meta_times', 'Base/Listed'), ('ns_remove_file', 'Temp/Listed'))
            out.append(inst('R17.4', 'maintain|%s|%s' % (c, pc), ok, '%s %s on %s' % (ev['site'][2], ev['path'], pc),
                            path=[] if ok else witness_path(q2, e)))
    return out


def run(ctx):
    from runner import collect
    return collect(ctx, r17_1, r17_2, r17_3_4)


def run_fixture(fctx):
    return {'R17.1': sum(1 for i in r17_1(fctx) if not i['ok'])}
