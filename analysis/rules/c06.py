"""C06 -- operations are non-blocking (DESIGN §5 C06)."""
import prims
from loops import loop_inventory, ACCEPTED_ITERATORS
from runner import inst
from graph import ev_brief, path_brief

EXPLANATION = ('Lock-freedom as code shape: (R06.1) no lock/wait/sleep primitive and no unclassified sensitive callee is '
               'reachable in the resolved call graph from any public entry point; (R06.2) the local call graph is acyclic; '
               '(R06.3) every CFG cycle that can perform a filesystem call is driven by an iterator over directory entries, '
               'a listing-derived vector or the configured cache stack, and is not nested in another such loop; (R06.4) on '
               'the explored state graph of the cache-directory insert methods a publish primitive occurs at most twice on '
               'any path, the second only after the first failed; (R06.5) with in-memory maintenance gates cut, each '
               'plain/sharded get/touch/set/put has a finite static bound on filesystem events (reported). Kernel-side '
               'progress of the primitives themselves is trusted, not decided.')
ASSUMPTIONS = ['std/filetime/tempfile primitives other than the classified lock/block ones do not wait on other processes']
FLOORS = {'R06.1': 40, 'R06.2': 1, 'R06.3': 3, 'R06.4': 2, 'R06.5': 8}   # R06.3: 6 loops today; a clean-up may legitimately remove some
FIXTURE_RULES = ['R06.1', 'R06.2', 'R06.3']

FSISH = prims.FS_CLASSES - {'seek', 'read', 'flush', 'fd_raw'}


def r06_1(ctx):
    out = []
    for k in ctx.public_fns():
        eff = ctx.cg.effects(k)
        bad = eff & (prims.WAITING | {'UNCLASSIFIED', 'indirect', 'process'})
        detail = ''
        if bad:
            sites = []
            for b in ctx.cg.reach(k):
                for (np, cls, site) in ctx.cg.ext_calls.get(b, ()):
                    if cls in bad:
                        sites.append('%s %s [%s] in %s' % (site['span'], np, cls, ctx.B[b]['path']))
            detail = 'waiting/unclassified primitive reachable from %s: %s' % (ctx.B[k]['path'], '; '.join(sites[:5]))
        out.append(inst('R06.1', ctx.B[k]['path'], not bad, detail or 'no lock/block primitive reachable',
                        nontrivial=bool(eff)))
    return out


def r06_2(ctx):
    cyc = ctx.cg.cycles()
    if cyc:
        return [inst('R06.2', 'recursion:' + ','.join(sorted(ctx.B[k]['path'] for k in c)), False,
                     'recursive call cycle among local functions: %s' % [ctx.B[k]['path'] for k in c]) for c in cyc]
    return [inst('R06.2', 'callgraph', True, 'local call graph over %d bodies is acyclic' % len(ctx.B))]


def _is_next(ev):
    p = ev.get('path') or ev.get('name') or ''
    last = p.rsplit('::', 1)[-1]
    return (last == 'next' and 'Iterator' in p) or (last in ('split_first', 'split_last') and 'slice' in p)


def r06_3(ctx):
    out = []
    inv = loop_inventory(ctx)
    fs_loops = [l for l in inv if l['effects'] & FSISH]
    fs_loop_fns = {l['key'] for l in fs_loops}
    for l in fs_loops:
        ok = True
        why = []
        bounded_note = None
        if not l['iterator_driven']:
            # a cycle of the CFG is not necessarily a cycle of the program: `loop { .. }` bounded by a flag or a small
            # constant counter unrolls in the abstract exploration (the flag is a concrete value there).  Accept the loop
            # iff the state graph of the enclosing function has no cycle through any primitive call, i.e. the number of
            # primitive calls is bounded on every path whatever the primitives return; a retry/poll loop that depends on
            # an outcome revisits the same abstract state and stays a cycle.
            n = None
            try:
                q = ctx.explore(l['key'])
                ext = [i for i, (a, b, ev) in enumerate(q.E) if ev is not None and ev['k'] == 'ext']
                # cycles driven by an iterator (maintenance scans inlined into the same exploration) are judged by their
                # own inventory entry; cut them at their `next` and look for what is still cyclic
                nxt = {i for i in ext if _is_next(q.E[i][2])}
                comp, _ = q.sccs(blocked=nxt)
                cyclic = [i for i in ext if i not in nxt and comp[q.E[i][0]] == comp[q.E[i][1]]]
                n = float('inf') if cyclic else len(ext)
            except Exception:   # fail closed: an unexplorable function keeps the CFG verdict
                n = None
            if n is not None and n != float('inf'):
                bounded_note = 'CFG cycle unrolls in the state graph: no primitive call lies on a cycle of abstract states (other than iterator-driven scans)'
            else:
                ok = False
                why.append('cycle performs filesystem calls but is not driven by Iterator::next (retry/poll loop?)')
        else:
            for it in l['iter_types']:
                if not any(it.startswith(p) for p, _ in ACCEPTED_ITERATORS):
                    ok = False
                    why.append('loop iterator type %s is not a directory listing, listing-derived vector or cache stack' % it)
        nested = [ctx.B[c]['path'] for c in l['callees'] if ctx.cg.reach(c) & fs_loop_fns]
        if len(set(l['next_blocks'])) > 1:
            nested.append('an inner iterator loop in the same function')
        if nested:
            ok = False
            why.append('filesystem loop nested inside another (via %s)' % nested[:3])
        key = '%s|iter=%s|eff=%s' % (l['path'], ','.join(sorted(set(l['iter_types']))) or 'none',
                                      ','.join(sorted(l['effects'] & FSISH)))
        out.append(inst('R06.3', key, ok, '; '.join(why) or bounded_note or 'iterator loop over %s' % l['iter_types'],
                        path=['%s (blocks %s)' % (l['span'], l['blocks'])]))
    ctx._loop_inv = inv
    return out


def r06_4(ctx):
    out = []
    m = ctx.cachedir_methods()
    for role in ('set', 'put'):
        q = ctx.explore(m[role])
        pub = q.prim_edges({'publish_replace', 'publish_excl'})
        n = q.max_count(pub)
        ok = n <= 2 and n >= 1
        detail = 'max publish attempts on any path = %s' % n
        path = []
        if ok and n == 2:
            # the second attempt must lie below the failure of the first: cut "first failed" evidence
            # = refine Err / tested-false edges on a publish-body result; then no path has 2 publishes
            fail = q.edges(lambda ev: (ev['k'] == 'refine' and ev['vname'] == 'Err') or ev['k'] == 'tested')
            n2 = q.max_count(pub, blocked=fail)
            if n2 > 1:
                ok = False
                detail = 'a second publish attempt is reachable without the first having failed'
        if not ok and pub:
            w = q.witness(q.E[pub[-1]][0]) or []
            path = path_brief(w)
        out.append(inst('R06.4', 'cachedir.%s' % role, ok, detail, path=path))
    return out


def gate_edges(q):
    """true-edges of in-memory maintenance gates: branches on the bool result of a pure local
    function, or on a comparison over atomic loads."""
    from values import VAL, subs

    def is_gate(ev):
        if ev['k'] != 'branch' or ev.get('eq') != 1:
            return False
        t = VAL[ev['val']]
        if t[0] != 'sym':
            return False
        for s in subs(ev['val']):
            ts = VAL[s]
            if ts[0] == 'sym' and ts[1] == 'app' and prims.classify(ts[2])[0] in prims.FS_CLASSES:
                return False   # derived from a filesystem outcome, not in-memory state
        if t[1] == 'app' and t[2].startswith('local::'):
            return True
        if t[1] == 'cmp':
            # over atomic loads, or over the result of a pure local helper that wraps them (`self.estimated_load(i)`)
            return any(VAL[s][0] == 'sym' and VAL[s][1] == 'app' and ('atomic' in VAL[s][2] or VAL[s][2].startswith('local::')) for s in subs(ev['val']))
        return False
    return q.edges(is_gate)


def r06_5(ctx):
    out = []
    entries = []
    for path in ('plain::Cache::get', 'plain::Cache::touch', 'plain::Cache::set', 'plain::Cache::put',
                 'sharded::Cache::get', 'sharded::Cache::touch', 'sharded::Cache::set', 'sharded::Cache::put'):
        entries.append(path)
    for path in entries:
        q = ctx.explore(ctx.key_of(path))
        fs = q.prim_edges(FSISH)
        gates = gate_edges(q)
        n_all = q.max_count(fs)
        n_cut = q.max_count(fs, blocked=gates)
        ok = n_cut != float('inf')
        out.append(inst('R06.5', path, ok,
                        'static bound on filesystem events with maintenance gates cut = %s (uncut: %s; %d gate edges)'
                        % (n_cut, n_all, len(gates)), sample={'bound': str(n_cut), 'uncut': str(n_all)}))
    return out


def run(ctx):
    from runner import collect
    return collect(ctx, r06_1, r06_2, r06_3, r06_4, r06_5)


def run_fixture(fctx):
    fired = {}
    fired['R06.1'] = sum(1 for i in r06_1(fctx) if not i['ok'])
    fired['R06.2'] = sum(1 for i in r06_2(fctx) if not i['ok'])
    fired['R06.3'] = sum(1 for i in r06_3(fctx) if not i['ok'])
    return fired
