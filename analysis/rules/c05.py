"""C05 -- concurrent activity never surfaces as an error or a panic (DESIGN §5 C05)."""
import re
import prims
import values
from values import VAL, show
from runner import inst
from rules import sites, c02
from rules.common import (tags_of, cls_of, witness_path, arg_role, obj_root, outcomes, path_class)
from graph import path_brief

EXPLANATION = ('Error discipline at the race-exposed call sites (applied to paths a peer may unlink/replace at any time), on '
               'the state graphs of all cache-directory and sharded entry points: for each entry of the frozen site table the '
               'Err outcome is tested by the absence classifier (or, for link, against AlreadyExists) on that very error and '
               'the true edge reaches an Ok exit with no Err exit carrying the error ("absent => benign"); best-effort sites '
               'never surface their error at all; a failed first publish attempt leads to mkdir + one retry; the classifier '
               '(R05.x) every execution of an exclusive link onto directory+key has its own AlreadyExists test or its error never reaches the caller; the classifier itself answers true for kind()==NotFound and raw_os_error()==ESTALE (evaluated constant); no panic is reachable '
               'only below the Err outcome of such a site. That every schedule is error-free is not decided.')
FLOORS = {'R05.m': 4, 'R05.t': 20, 'R05.9': 2, 'R05.c': 3, 'R05.d': 1, 'R05.x': 2}

TABLE = [
    ('#1 evictee vanished', r'.*', r'^std::fs::remove_file\((Base|Value)/Listed\)$', 'benign'),
    ('#1 consumed source vanished', r'.*', r'^std::fs::remove_file\(Value\)$', 'benign'),
    ('#2 move-back target vanished', r'.*', r'^filetime::set_file_times\((Base|Value)/Listed\)$', 'benign'),
    ('#3 touched file vanished', r'.*', r'^filetime::set_file_atime\(Base/Key\)$', 'benign'),
    ('#4 listed entry vanished', r'.*', r'^std::fs::DirEntry::metadata\(Entry\((Base|Value)\)\)$', 'benign'),
    ('#5 lookup lost the race', r'.*', r'^std::fs::File::open\(Base/Key\)$', 'benign'),
    ('#6 directory missing during maintenance', r'.*', r'^std::fs::read_dir\(Base\)$', 'benign'),
    ('#7 temp directory missing', r'.*', r'^std::fs::read_dir\(Temp\)$', 'benign'),
    ('#8 link finds the entry present', r'.*', r'^std::fs::hard_link\(Base/Key\)$', 'benign'),
    ('#10 atime re-touch', r'.*', r'^std::fs::File::metadata\(Handle\(Base/Key\)\)$', 'never'),
    ('#10 atime re-touch', r'.*', r'^filetime::set_file_handle_times\(Handle\(Base/Key\)\)$', 'never'),
    ('#11 per-temp-file cleanup', r'.*', r'^std::fs::DirEntry::metadata\(Entry\(Temp\)\)$', 'never'),
    ('#11 per-temp-file cleanup', r'.*', r'^std::fs::remove_file\(Temp/Listed\)$', 'never'),
]
TABLE_FLOOR = {'#1 evictee vanished': 2, '#1 consumed source vanished': 2, '#2 move-back target vanished': 2,
               '#3 touched file vanished': 3, '#4 listed entry vanished': 2, '#5 lookup lost the race': 2,
               '#6 directory missing during maintenance': 2, '#7 temp directory missing': 2, '#8 link finds the entry present': 1,
               '#10 atime re-touch': 2, '#11 per-temp-file cleanup': 2}


def r05_t(ctx, recs=None, rule='R05.t'):
    out = []
    e2e = recs is not None
    if recs is None:
        recs = sites.analyse(ctx, sites.lower_entries(ctx) + sites.stack_level_entries(ctx))
    count = {}
    for (label, er, sr, kind) in TABLE:
        for rec in recs:
            if not (re.match(er, rec['entry']) and re.match(sr, rec['site'])):
                continue
            count[label] = count.get(label, 0) + 1
            q = rec['q']
            if kind == 'benign':
                ok = rec['benign'] and not rec['benign_bad']
                detail = 'absent => benign continuation' if ok else \
                    ('the absence of the file is no longer treated as benign at %s (%s): a concurrent unlink/evict surfaces as an error'
                     % (rec['site'], rec['spans'][0]))
                path = []
                if not ok:
                    e = rec['edges'][0]
                    path = witness_path(q, e)
            else:
                ok = not rec['surfaces']
                detail = 'errors of this best-effort step never reach the caller' if ok else \
                    'an error of the best-effort step %s (%s) is now returned to the caller' % (rec['site'], rec['spans'][0])
                path = path_brief(q.witness(rec['surfaces'][0][1]) or [])[-12:] if not ok else []
            out.append(inst(rule, '%s|%s|%s' % (label, rec['entry'], rec['site']), ok, detail, path=path))
    for label, fl in TABLE_FLOOR.items():
        if not e2e and count.get(label, 0) < fl:
            out.append(inst('R05.t', '%s|site present' % label, False,
                            'race-exposed site "%s" matched %d call sites, fewer than the %d confirmed by reading' % (label, count.get(label, 0), fl)))
    if e2e:
        return out
    # #12: re-read after ensure's put
    wt = ctx.role('write_trait')
    ins = ctx.insert_methods()
    for rec in recs:
        if rec['site'] == 'write/read-side get' and rec['entry'].startswith('stack::'):
            q = rec['q']
            puts = q.edges(lambda ev: ev['k'] == 'traitcall' and ev['trait'] == wt and ins.get(ev['method']) == 'put')
            rereads = [e for e in rec['edges'] if puts and not q.must_precede(puts, [e])]
            if not rereads:
                continue
            bad = []
            errs = q.terminals(lambda ev: ev['k'] == 'ret' and ev.get('variant') == 'Err')
            for e in rereads:
                ev = q.E[e][2]
                ErrE = sites.refines(q, ev['res'], 'Err')
                r = q.reach_fwd([q.E[x][1] for x in ErrE]) if ErrE else set()
                if any(t in r for t in errs):
                    bad.append(e)
                # a miss must also fall back
                if not ErrE and not sites.refines(q, ev['res'], 'Ok'):
                    pass
            out.append(inst('R05.t', '#12 re-read after put|%s' % rec['entry'], not bad,
                            'after the put, a failed or missing re-read falls back to the pre-opened handle' if not bad else
                            'an error of the re-read after put is returned to the caller (the entry may simply have been evicted)',
                            path=witness_path(q, bad[0]) if bad else []))
    return out


IDEMPOTENT_MKDIR = ('std::fs::create_dir_all',)


def r05_m(ctx):
    """#13 directories created concurrently: mkdir must tolerate a peer creating the same directory."""
    out = []
    ek = [t for t in ctx.T if t.get('adt') == 'std::io::ErrorKind' and t.get('variants')]
    ae = [i for i, v in enumerate(ek[0]['variants']) if v['name'] == 'AlreadyExists'][0] if ek else None
    seen = set()
    for name, key, mode in sites.lower_entries(ctx):
        q = ctx.explore(key, mode=mode)
        for e in q.prim_edges('ns_create_dir'):
            ev = q.E[e][2]
            d = sites.describe(ctx, q, ev)
            if (name, d) in seen:
                continue
            seen.add((name, d))
            ok = ev['path'] in IDEMPOTENT_MKDIR
            if not ok:
                errv = sites.err_value(ev)
                ben = q.edges(lambda b: b['k'] == 'branch' and b.get('eq') == 1 and VAL[b['val']][0] == 'sym' and VAL[b['val']][1] == 'cmp'
                              and errv in values.subs(b['val']) and any(VAL[s_][0] == 'agg' and VAL[s_][1] == 'std::io::ErrorKind' and
                                                                        int(VAL[s_][2][1:]) == ae for s_ in values.subs(b['val'])))
                errs = q.terminals(lambda t: t['k'] == 'ret' and t.get('variant') == 'Err')
                rb = q.reach_fwd([q.E[x][1] for x in ben]) if ben else set()
                ok = bool(ben) and not any(t in rb and errv in values.subs(q.g.term[t]['val']) for t in errs)
            out.append(inst('R05.m', '%s|%s' % (name, d), ok,
                            'directory creation tolerates a concurrent creator (%s)' % ev['path'] if ok else
                            '%s %s fails with AlreadyExists when a peer creates the same directory between the check and the mkdir, '
                            'and that error is returned to the caller' % (ev['site'][2], ev['path']), path=witness_path(q, e) if not ok else []))
    return out


def r05_9(ctx):
    return [inst('R05.9', i['key'].split('|', 1)[1], i['ok'], i['detail'], path=i['path']) for i in c02.r02_6(ctx)]


def r05_c(ctx):
    out = []
    k = ctx.role('absence_classifier')
    q = ctx.explore(k, opaque='none')
    rets = q.terminals(lambda ev: ev['k'] == 'ret')
    nf = [t for t in ctx.T if t.get('adt') == 'std::io::ErrorKind' and t.get('variants')]
    nf_idx = [i for i, v in enumerate(nf[0]['variants']) if v['name'] == 'NotFound'][0] if nf else None

    def is_notfound_true(ev):
        if ev['k'] != 'branch' or ev.get('eq') != 1:
            return False
        t = VAL[ev['val']]
        if not (t[0] == 'sym' and t[1] == 'cmp' and t[2] == 'Eq'):
            return False
        ks = [VAL[s] for s in values.subs(ev['val']) if VAL[s][0] == 'agg' and VAL[s][1] == 'std::io::ErrorKind']
        return any(int(a[2][1:]) == nf_idx for a in ks)
    A = q.edges(is_notfound_true)
    after = q.reach_fwd([q.E[a][1] for a in A]) if A else set()
    ok_nf = bool(A) and all(VAL[q.g.term[t]['val']] == ('int', '1') for t in rets if t in after)
    out.append(inst('R05.c', 'classifier|NotFound', ok_nf, 'kind()==NotFound => true' if ok_nf else
                    'the absence classifier no longer answers true for ErrorKind::NotFound'))
    estale = ctx.facts['consts'].get('libc::ESTALE', {}).get('val', {}).get('int')
    found = False
    for t in rets:
        v = q.g.term[t]['val']
        tv = VAL[v]
        if tv[0] == 'sym' and tv[1] == 'cmp' and tv[2] == 'Eq':
            # `errno == ESTALE` on the unwrapped code, or `raw_os_error() == Some(ESTALE)` on the Option
            ints = [int(VAL[s][1]) for side in (tv[3], tv[4]) for s in values.subs(side) if VAL[s][0] == 'int'
                    and not any(VAL[x][0] == 'sym' and VAL[x][1] == 'app' for x in values.subs(side))]
            errno = any(VAL[s][0] == 'sym' and VAL[s][1] == 'app' and VAL[s][2] == 'std::io::Error::raw_os_error' for s in values.subs(v))
            if errno and estale in ints:
                found = True
    # or as a branch
    if not found:
        found = bool(q.edges(lambda ev: ev['k'] == 'branch' and VAL[ev['val']][0] == 'sym' and VAL[ev['val']][1] == 'cmp'
                             and any(VAL[s] == ('int', str(estale)) for s in values.subs(ev['val']))
                             and any(VAL[s][0] == 'sym' and VAL[s][1] == 'app' and VAL[s][2] == 'std::io::Error::raw_os_error' for s in values.subs(ev['val']))))
    out.append(inst('R05.c', 'classifier|ESTALE', found and estale == 116, 'raw_os_error()==ESTALE (%s) => true' % estale if found else
                    'the absence classifier no longer recognises ESTALE (stale NFS handle)'))
    # nothing else is unconditionally benign
    r = q.reach_fwd([q.g.entry], blocked=A)
    uncond = [t for t in rets if t in r and VAL[q.g.term[t]['val']] == ('int', '1')]
    out.append(inst('R05.c', 'classifier|no unconditional true', not uncond, 'true only below the NotFound / ESTALE tests' if not uncond else
                    'the classifier can answer true for errors other than NotFound/ESTALE (would mask real failures: see C18)'))
    return out


def r05_d(ctx):
    recs = sites.analyse(ctx, sites.lower_entries(ctx) + sites.stack_level_entries(ctx))
    bad = []
    n = 0
    for rec in recs:
        if rec['cls'] in prims.FS_CLASSES and rec['cls'] != 'sync':
            n += 1
            if rec['panic_on_err']:
                bad.append(rec)
    out = [inst('R05.d', 'no panic below a race-exposed failure', not bad,
                '%d filesystem call sites: none has a panic reachable only below its Err outcome' % n if not bad else
                'a failure of %s (%s) leads to a panic' % (bad[0]['site'], bad[0]['spans'][0]))]
    return out


def r05_x(ctx):
    """every execution of an exclusive link onto (directory + key) has its *own* AlreadyExists test: the site table groups
    call sites by description, so a second `hard_link(from, to)?` added next to a tolerant one used to hide behind it.
    A peer may publish the same key between any two of our steps, so each exclusive link must tolerate EEXIST."""
    out = []
    recs = sites.analyse(ctx, sites.lower_entries(ctx) + sites.stack_level_entries(ctx))
    for rec in recs:
        if rec['cls'] != 'publish_excl' or not re.search(r'\((Base|Value)/Key\)$', rec['site']):
            continue
        q = rec['q']
        errs = q.terminals(lambda ev: ev['k'] == 'ret' and ev.get('variant') == 'Err')
        by_span = {}
        for e in rec['edges']:
            by_span.setdefault(q.E[e][2]['site'][2], []).append(e)
        for span, edges in sorted(by_span.items()):
            bad = None
            n = 0
            for e in edges:
                ev = q.E[e][2]
                ee = sites.refines(q, sites.result_value(ev), 'Err')
                ben = sites.benign_edges(ctx, q, ev)
                if ben:
                    n += 1
                    continue
                # no AlreadyExists test on this execution's error: fine only if the error cannot reach the caller
                errv = sites.err_value(ev)
                rv = sites.result_value(ev)
                start = [q.E[x][1] for x in ee] if ee else [q.E[e][1]]
                r = q.reach_fwd(start)
                if any(t in r and (q.g.term[t]['val'] == rv or errv in values.subs(q.g.term[t]['val'])) for t in errs):
                    bad = e
                    break
            out.append(inst('R05.x', '%s|%s|%s' % (rec['entry'], rec['site'], 'site#%d' % sorted(by_span).index(span)),
                            bad is None,
                            'exclusive link tolerates a concurrent publisher (AlreadyExists tested on %d executions)' % n if bad is None else
                            '%s at %s: its AlreadyExists error is returned to the caller untested -- a peer that publishes the same key '
                            'between our steps surfaces as an error' % (rec['site'], span),
                            path=witness_path(q, bad) if bad is not None else []))
    return out


def run(ctx):
    from runner import collect
    return collect(ctx, r05_t, r05_m, r05_x, r05_9, r05_c, r05_d)


THOROUGH_FLOORS = {'E05.t': 60}


def e05_t(ctx):
    """the same site table, with the stacked entry points fully inlined (per write-side implementor and checker)"""
    return r05_t(ctx, recs=sites.analyse(ctx, sites.e2e_entries(ctx)), rule='E05.t')


def run_thorough(ctx):
    from runner import collect
    return collect(ctx, e05_t)
