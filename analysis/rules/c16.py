"""C16 -- keys are validated and confined to the cache directory (DESIGN §5 C16)."""
import prims
import values
from values import VAL, show
from runner import inst
from rules.common import tags_of, cls_of, roles_of, path_class, witness_path, arg_role
from graph import path_brief

EXPLANATION = ('(R16.1) on the state graph of every lookup/write/touch entry point (cache-directory trait methods per '
               'implementor, plain and sharded public APIs) every mutating primitive and every directory listing is dominated '
               'by the Ok outcome of the name validator; (R16.2) in the validator itself no Ok exit is reachable for an empty '
               'name or a first byte in {.,/,\\} and every Err exit carries ErrorKind::InvalidInput; (R16.3) no Ok exit of the '
               'validator is reachable without a whole-name path-separator scan answering "none"; (R16.4) every mutating '
               'primitive in those entry points is applied to a path of an allowed provenance class (source value, '
               'directory-accessor + validated key, directory + listed name, temp dir + listed name, directory/temp dir '
               'themselves, parent of directory + key); (R16.5) the listed names maintenance may unlink or re-stamp passed a '
               'dot-prefix rejection on the raw name bytes (= R17.2). Names special to a particular OS beyond separators are not decided.')
FLOORS = {'R16.1': 10, 'R16.2': 5, 'R16.3': 1, 'R16.4': 20, 'R16.5': 1, 'R16.6': 1}

MUT_OR_LIST = prims.MUTATING | {'list_dir'}


def entries(ctx):
    m = ctx.cachedir_methods()
    out = [('cachedir.%s' % r, m[r]) for r in ('get', 'set', 'put', 'touch')]
    for p in ('plain::Cache::get', 'plain::Cache::set', 'plain::Cache::put', 'plain::Cache::touch',
              'sharded::Cache::get', 'sharded::Cache::set', 'sharded::Cache::put', 'sharded::Cache::touch'):
        out.append((p, ctx.key_of(p)))
    return out


def validator_ok_edges(ctx, q):
    T = tags_of(ctx)
    return q.edges(lambda ev: ev['k'] == 'refine' and ev['vname'] == 'Ok' and VAL[ev['val']][0] == 'sym'
                   and VAL[ev['val']][1] == 'app' and VAL[ev['val']][2] == T.validator_path)


def r16_1(ctx):
    out = []
    for name, key in entries(ctx):
        q = ctx.explore(key)
        A = validator_ok_edges(ctx, q)
        B = q.prim_edges(MUT_OR_LIST)
        bad = q.must_precede(A, B)
        detail = '%d mutating/listing events, all dominated by validator Ok (%d Ok edges)' % (len(B), len(A))
        path = []
        if bad:
            ev = q.E[bad[0]][2]
            detail = '%s %s is reachable without a successful name validation' % (ev['site'][2], ev['path'])
            path = witness_path(q, bad[0], blocked=A)
        if not A:
            bad = bad or [None]
            detail = 'the name validator is never consulted on this entry point'
        out.append(inst('R16.1', name, not bad, detail, path=path, nontrivial=bool(B)))
    return out


# ------------------------------------------------------------------ validator table

def _first_byte_terms(q):
    """terms denoting 'the first byte of the name' in the validator's graph."""
    out = set()
    for (a, b, ev) in q.E:
        if ev is None:
            continue
        if ev['k'] == 'ext' and ev['path'] in ('core::slice::first', 'core::str::bytes', 'core::str::chars'):
            pass
    return out


def excludes_byte_edges(q, byte):
    """Edges after which the name's first byte is known not to be `byte`."""
    def pred(ev):
        if ev['k'] != 'branch':
            return False
        t = VAL[ev['val']]
        if t[0] != 'sym':
            return False
        names = [VAL[s] for s in values.subs(ev['val'])]
        firstish = any(n[0] == 'sym' and n[1] == 'app' and n[2] in ('core::slice::first', 'core::slice::get', 'core::str::bytes', 'core::str::chars', 'core::str::starts_with', 'core::slice::starts_with') for n in names) \
            or any(n[0] == 'sym' and n[1] == 'fld' and n[3] in ('idx', 'opaque') for n in names)      # `[b'.', ..]` slice pattern: element 0 of the name's bytes
        if not firstish:
            return False
        if t[1] == 'app' and t[2] in ('core::str::starts_with', 'core::slice::starts_with'):
            # starts_with(name, pat) == false  where pat is the byte
            pats = [VAL[x] for x in t[4:]]
            if any((p[0] == 'int' and int(p[1]) == byte) or (p[0] == 'str' and p[1] == chr(byte)) for p in pats):
                return ev.get('eq') == 0
            return False
        if 'ne' in ev:
            return byte in ev['ne']
        if 'eq' in ev:
            return ev['eq'] != byte and ev['eq'] > 1   # equal to a different specific byte
        return False
    return q.edges(pred)


def excludes_empty_edges(q):
    def pred(ev):
        if ev['k'] == 'refine' and ev['vname'] == 'Some':
            t = VAL[ev['val']]
            return t[0] == 'sym' and t[1] == 'app' and t[2] in ('core::slice::first', 'core::slice::get', 'core::str::chars', 'core::str::bytes')
        if ev['k'] == 'branch':
            t = VAL[ev['val']]
            if t[0] == 'sym' and t[1] == 'app' and t[2] in ('core::str::is_empty', 'core::slice::is_empty'):
                return ev.get('eq') == 0
            # a test on the length of the name / its bytes (slice patterns, `len() == 0`, `len() >= 1`)
            if t[0] == 'sym' and t[1] == 'cmp' and 'eq' in ev:
                op, a, b = t[2], VAL[t[3]], VAL[t[4]]
                is_len = lambda x: x[0] == 'sym' and ((x[1] == 'un' and x[2] == 'len') or (x[1] == 'app' and x[2].rsplit('::', 1)[-1] == 'len'))
                if is_len(a) and b[0] == 'int':
                    k = int(b[1])
                    truth = bool(ev['eq'])
                    nonempty = {('Eq', 0): not truth, ('Ne', 0): truth, ('Ge', 1): truth, ('Gt', 0): truth, ('Lt', 1): not truth, ('Le', 0): not truth}.get((op, k))
                    return bool(nonempty)
            if t[0] == 'sym' and ((t[1] == 'un' and t[2] == 'len') or (t[1] == 'app' and t[2].rsplit('::', 1)[-1] == 'len')):
                if 'ne' in ev:
                    return 0 in ev['ne']
                if 'eq' in ev:
                    return ev['eq'] >= 1
        return False
    return q.edges(pred)


SEP_PATTERNS = ('std::path::is_separator',)
SCAN_FNS = ('core::str::contains', 'core::str::find', 'core::str::rfind', 'core::slice::contains', 'core::str::split',
            'core::str::matches', 'memchr::memchr')


def excludes_separator_edges(q):
    """Edges after which a whole-name scan has answered 'no path separator anywhere'."""
    def is_sep_pat(v):
        t = VAL[v]
        if t[0] == 'fn' and t[1] in SEP_PATTERNS:
            return True
        if t[0] == 'int' and int(t[1]) == 47:
            return True
        if t[0] == 'str' and t[1] == '/':
            return True
        return False

    def pred(ev):
        if ev['k'] not in ('branch', 'refine'):
            return False
        t = VAL[ev['val']]
        if not (t[0] == 'sym' and t[1] == 'app' and t[2] in SCAN_FNS):
            return False
        if not any(is_sep_pat(x) for x in t[4:]):
            return False
        if t[2].endswith('contains'):
            return ev['k'] == 'branch' and ev.get('eq') == 0
        if t[2].endswith('find'):
            return ev['k'] == 'refine' and ev['vname'] == 'None'
        return False
    return q.edges(pred)


def r16_2_3(ctx):
    out = []
    v = ctx.role('validator')
    q = ctx.explore(v, opaque='none')   # the validator may delegate to pure local helpers: look inside them
    ok_terms = q.terminals(lambda ev: ev['k'] == 'ret' and ev.get('variant') == 'Ok')
    err_terms = q.terminals(lambda ev: ev['k'] == 'ret' and ev.get('variant') == 'Err')
    if not ok_terms:
        out.append(inst('R16.2', 'validator.accepts', False, 'the validator has no Ok exit'))
        return out
    # decision table: first byte
    for label, byte in (('dot', 46), ('slash', 47), ('backslash', 92)):
        ex = excludes_byte_edges(q, byte)
        r = q.reach_fwd([q.g.entry], blocked=ex)
        leak = [n for n in ok_terms if n in r]
        path = path_brief(q.witness(leak[0], blocked=ex) or []) if leak else []
        out.append(inst('R16.2', 'validator.rejects.%s' % label, not leak,
                        'no Ok exit reachable unless the first byte is known to differ from %r (%d excluding edges)' % (chr(byte), len(ex))
                        if not leak else 'a name starting with %r can reach an Ok exit of the validator' % chr(byte), path=path))
    ex = excludes_empty_edges(q)
    r = q.reach_fwd([q.g.entry], blocked=ex)
    leak = [n for n in ok_terms if n in r]
    out.append(inst('R16.2', 'validator.rejects.empty', not leak,
                    'no Ok exit reachable for the empty name' if not leak else 'the empty name can reach an Ok exit',
                    path=path_brief(q.witness(leak[0], blocked=ex) or []) if leak else []))
    # error kind
    kinds = set()
    ek = [t for t in ctx.T if t.get('adt') == 'std::io::ErrorKind' and t.get('variants')]
    names = [x['name'] for x in ek[0]['variants']] if ek else []
    bad_kind = []
    for n in err_terms:
        ev = q.g.term[n]
        p = ev.get('payload', [None])[0]
        t = VAL[p] if p is not None else None
        if t is not None and t[0] == 'sym' and t[1] == 'ioerr' and VAL[t[2]][0] == 'agg':
            idx = int(VAL[t[2]][2][1:])
            kinds.add(names[idx] if idx < len(names) else str(idx))
            if names and names[idx] != 'InvalidInput':
                bad_kind.append(n)
        else:
            bad_kind.append(n)
    out.append(inst('R16.2', 'validator.error_kind', not bad_kind and bool(err_terms),
                    'all %d Err exits carry ErrorKind::%s' % (len(err_terms), sorted(kinds)) if not bad_kind
                    else 'an Err exit of the validator does not carry ErrorKind::InvalidInput'))
    # R16.3 whole-name separator scan
    ex = excludes_separator_edges(q)
    r = q.reach_fwd([q.g.entry], blocked=ex)
    leak = [n for n in ok_terms if n in r]
    detail = ('every Ok exit lies below a whole-name separator scan answering "none" (%d such edges)' % len(ex)) if not leak else \
        ('the validator accepts a name without scanning it for path separators: a name such as "a/../../x" is pushed onto '
         'the directory path and escapes it (an accepted name must denote one file directly inside the directory)')
    out.append(inst('R16.3', 'validator.separator_scan', not leak, detail,
                    path=path_brief(q.witness(leak[0], blocked=ex) or []) if leak else []))
    return out


# --------------------------------------------------------------------- R16.4 typing

ALLOWED = {
    'publish_replace': {'src': {'Value'}, 'dst': {'Base/Key'}},
    'publish_excl': {'src': {'Value'}, 'dst': {'Base/Key'}},
    'meta_perm': {'path': {'Value'}},
    'meta_times': {'path': {'Value', 'Base/Listed'}},
    'meta_atime': {'path': {'Base/Key'}},
    'meta_times_h': {'handle': {'Handle(Base/Key)'}},
    'ns_remove_file': {'path': {'Value', 'Base/Listed', 'Temp/Listed'}},
    'ns_create_dir': {'path': {'Temp', 'parent(Base/Key)', 'Base', 'parent(Temp)'}},   # parent(Temp) is the cache directory itself
}


def typing_entries(ctx):
    m = ctx.cachedir_methods()
    out = [('cachedir.%s' % r, m[r]) for r in ('get', 'set', 'put', 'touch', 'ensure_temp')]
    for k in m['maintain']:
        if ctx.B[k]['arg_count'] == 1:      # helpers that take the directory as a parameter are covered through their callers
            out.append(('cachedir.' + ctx.B[k]['name'], k))
    for p in ('sharded::Cache::set', 'sharded::Cache::put', 'sharded::Cache::temp_dir', 'sharded::Cache::get',
              'sharded::Cache::touch'):
        out.append((p, ctx.key_of(p)))
    return out


def r16_4(ctx):
    out = []
    seen = set()
    for name, key in typing_entries(ctx):
        q = ctx.explore(key)
        for e in q.prim_edges(prims.MUTATING):
            ev = q.E[e][2]
            c = cls_of(ev)
            table = ALLOWED.get(c)
            if table is None:
                k = (name, c, ev['path'])
                if k in seen:
                    continue
                seen.add(k)
                out.append(inst('R16.4', '%s|%s|%s' % (name, c, ev['path']), False,
                                '%s: mutating primitive %s of class %s has no allowed path class in the confinement table'
                                % (ev['site'][2], ev['path'], c), path=witness_path(q, e)))
                continue
            for role, allowed in table.items():
                v = arg_role(ev, role)
                pc = path_class(ctx, q, v)
                k = (name, c, role, pc)
                if k in seen:
                    continue
                seen.add(k)
                ok = pc in allowed
                out.append(inst('R16.4', '%s|%s.%s|%s' % (name, c, role, pc), ok,
                                '%s %s: %s operand is %s [%s]' % (ev['site'][2], ev['path'], role, pc, show(v, 4)[:160]),
                                path=[] if ok else witness_path(q, e)))
    return out


def r16_5(ctx):
    """nothing in the dot-prefixed namespace is deleted or re-stamped by maintenance: the listed names that become
    eviction candidates (the only names maintenance unlinks or re-stamps, R16.4/R17.4) passed a dot-prefix rejection
    that works on the raw name bytes (shared with R17.2)."""
    from rules import c17
    return [inst('R16.5', i['key'].split('|', 1)[1], i['ok'], i['detail'], path=i.get('path') or [])
            for i in c17.r17_2(ctx) if 'dot' in i['key'] or 'push' in i['key']]


def r16_6(ctx):
    """"nothing inside nested subdirectories": every directory a shard object carries through the public sharded
    operations is exactly <the cache's base directory>/<shard name(id)> -- never a path that still has a key name or
    another shard's name pushed on it (= the shard-path instance of R12.5)."""
    from rules import c12
    return [inst('R16.6', i['key'].split('|', 1)[1], i['ok'], i['detail'], path=i.get('path') or []) for i in c12.r12_5(ctx) if 'shard path' in i['key']]


def run(ctx):
    from runner import collect
    return collect(ctx, r16_1, r16_2_3, r16_4, r16_5, r16_6)
