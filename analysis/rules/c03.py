"""C03 -- with auto_sync, data is durable before it is visible and immutable afterwards (DESIGN §5 C03)."""
import prims
import values
from values import VAL, show
from runner import inst
from rules.common import (tags_of, cls_of, witness_path, arg_role, obj_root, outcomes, outcome_edges, is_temp_object,
                          callback_kind, path_class)
from rules.c15 import stack_entries
from graph import path_brief

EXPLANATION = ('Stacked-cache publishing APIs explored with the auto_sync field specialised to true (dyn write-side calls kept '
               'as abstract insert operations): (R03.1) the Ok outcome of a sync_all/sync_data on a handle of the published object '
               'dominates every write-side insert of that object; (R03.2) no content write (io::copy into it, populate callback '
               'lent it) on that object is reachable after that Ok outcome; (R03.3) no insert is reachable after a failed flush '
               '(Err propagates or the documented panic); lower layer, per cache-directory implementor: (R03.4) the Ok outcome of '
               'set_permissions(source, readonly=true) dominates each publish primitive; (R03.5) no chmod / content write / '
               'truncate is ever applied to a (directory + key) path or a handle opened from one. fsync reaching the platter is '
               'not decided.')
FLOORS = {'R03.1': 7, 'R03.2': 7, 'R03.3': 4, 'R03.4': 2, 'R03.5': 4}


def publishing_entries(ctx):
    ins = ctx.insert_methods()
    wt = ctx.role('write_trait')
    out = []
    for name, k in stack_entries(ctx):
        # entry points from which a write-side insert is reachable
        q = ctx.explore(k, mode='layer', heap=ctx.auto_sync_heap(k, True), tag='sync')
        B = q.edges(lambda ev: ev['k'] == 'traitcall' and ev['trait'] == wt and ins.get(ev['method']) in ('set', 'put'))
        if B:
            out.append((name, k, q, B))
    return out


def writes_on(ctx, q, root):
    """content-write events on the object `root`: io::copy / Write::* with that handle, callbacks lent it."""
    def pred(ev):
        if ev['k'] == 'ext' and cls_of(ev) == 'content_write':
            h = arg_role(ev, 'handle')
            return h is not None and obj_root(h) == root
        if ev['k'] == 'usercb' and callback_kind(ctx, q, ev) == 'populate':
            return bool(ev['args']) and ev['args'][0] is not None and obj_root(ev['args'][0]) == root
        return False
    return q.edges(pred)


def r03_stack(ctx):
    out = []
    for name, k, q, B in publishing_entries(ctx):
        syncs = q.prim_edges('sync')
        by_obj = {}
        for b in B:
            ev = q.E[b][2]
            root = obj_root(ev['args'][2])
            by_obj.setdefault((ev['site'][:2], root), []).append(b)
        for (site, root), bs in sorted(by_obj.items(), key=lambda x: str(x[0])):
            ev0 = q.E[bs[0]][2]
            label = '%s|%s@%s' % (name, ev0['method'], ctx.B[site[0]]['name'] or ctx.B[site[0]]['path'])
            S = [e for e in syncs if obj_root(arg_role(q.E[e][2], 'handle')) == root]
            A = outcomes(q, S, 'Ok')
            bad = q.must_precede(A, bs)
            out.append(inst('R03.1', label, not bad,
                            'insert of %s dominated by sync:Ok on the same object (%d sync sites)' % (show(root, 2)[:60], len(S)) if not bad else
                            'with auto_sync enabled, %s publishes %s without a successful flush of that file' % (ev0['site'][2], show(root, 2)[:80]),
                            path=witness_path(q, bad[0], blocked=A) if bad else []))
            W = writes_on(ctx, q, root)
            late = q.never_after(A, W)
            out.append(inst('R03.2', label, not late,
                            'no content write on the object after its flush (%d write sites before)' % len(W) if not late else
                            'the file can still be written after it was flushed: %s' % q.E[late[0][1]][2]['site'][2],
                            path=witness_path(q, late[0][1]) if late else []))
            Ef = outcomes(q, S, 'Err')
            if S:
                after = q.never_after(Ef, bs)
                out.append(inst('R03.3', label, not after,
                                'a failed flush can never be followed by the insert (%d Err edges; panic/Err-return)' % len(Ef) if not after else
                                'publication is reachable after a failed flush', path=witness_path(q, after[0][1]) if after else [],
                                nontrivial=bool(Ef) or True))
    return out


def r03_lower(ctx):
    out = []
    m = ctx.cachedir_methods()
    for role in ('set', 'put'):
        q = ctx.explore(m[role])
        pubs = q.prim_edges({'publish_replace', 'publish_excl'})
        perms = q.prim_edges('meta_perm')

        def readonly_true(ev):
            mode = arg_role(ev, 'mode')
            if mode is None:
                return False
            for s in values.subs(mode):
                t = VAL[s]
                if t[0] == 'mu' and t[1] == 'std::fs::Permissions::set_readonly':
                    return any(VAL[a][0] == 'int' and VAL[a][1] == '1' for a in t[3:])
            return False
        bad_all = []
        for b in pubs:
            src = arg_role(q.E[b][2], 'src')
            P = [e for e in perms if obj_root(arg_role(q.E[e][2], 'path')) == obj_root(src) and readonly_true(q.E[e][2])]
            A = outcomes(q, P, 'Ok')
            bad = q.must_precede(A, [b])
            if bad:
                bad_all.append((b, A))
        out.append(inst('R03.4', 'cachedir.%s' % role, not bad_all and bool(pubs),
                        '%d publish events dominated by set_permissions(source, readonly=true):Ok' % len(pubs) if not bad_all else
                        'a file can be published without having been made read-only first',
                        path=witness_path(q, bad_all[0][0], blocked=bad_all[0][1]) if bad_all else []))
        # R03.5: nothing re-modes / writes / truncates a visible file
        for cls in ('meta_perm', 'content_write', 'truncate', 'open_rw', 'ns_create_file'):
            hits = []
            for e in q.prim_edges(cls):
                ev = q.E[e][2]
                v = arg_role(ev, 'path') or arg_role(ev, 'handle')
                pc = path_class(ctx, q, v)
                if 'Base/' in pc:
                    hits.append((e, pc))
            out.append(inst('R03.5', 'cachedir.%s|%s' % (role, cls), not hits,
                            'no %s on a (directory + name) path or a handle opened from one' % cls if not hits else
                            '%s is applied to a visible cache file (%s)' % (cls, hits[0][1]),
                            path=witness_path(q, hits[0][0]) if hits else [], nontrivial=True))
    return out


def run(ctx):
    from runner import collect
    return collect(ctx, r03_stack, r03_lower)


THOROUGH_FLOORS = {'E03.1': 8}


def run_thorough(ctx):
    from runner import collect
    from rules import e2e
    return collect(ctx, e2e.e03)
