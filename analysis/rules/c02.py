"""C02 -- a crash at any point leaves every cache directory valid (DESIGN §5 C02)."""
import prims
import values
from values import VAL, show
from runner import inst
from rules.common import (tags_of, cls_of, witness_path, arg_role, obj_root, outcomes, is_temp_object, path_class, is_atime_touch_of)
from rules.c15 import stack_entries
from rules import c17
from graph import path_brief

EXPLANATION = ('A crash point is a boundary between two filesystem calls, so validity at every crash point is decided as order and '
               'targets of calls on every path: (R02.1) in each cache-directory insert, utimens(source):Ok and chmod(source):Ok '
               'dominate the publish primitive; (R02.2) after publish:Ok the only reachable mutation in the publish body is '
               'unlink(source), after link-EEXIST additionally set-atime(destination); (R02.3) every named temp file is created in a '
               'directory obtained from the write side\'s temp-dir operation, every implementation of that operation returns a '
               'temp-accessor path, and every temp accessor is built by pushing the public constant ".kismet_temp"; (R02.4) the '
               'mutating effect closure of prune is {unlink, utimens}, of temp cleanup {unlink}; (R02.5) age gate (as C17); (R02.8) every unlink of the temp sweep names <temp dir>/<listed entry> (as R17.4), so stale debris is really reclaimed; '
               '(R02.6) after a failed first publish attempt no Ok exit is reachable without create_dir_all(parent) and a second '
               'attempt. That later operations succeed on a crashed tree is not decided.')
FLOORS = {'R02.1': 2, 'R02.2': 3, 'R02.3': 5, 'R02.4': 2, 'R02.5': 3, 'R02.6': 2, 'R02.7': 1, 'R02.8': 2}


def r02_1(ctx):
    out = []
    m = ctx.cachedir_methods()
    for role in ('set', 'put'):
        q = ctx.explore(m[role])
        pubs = q.prim_edges({'publish_replace', 'publish_excl'})
        for cls, what in (('meta_times', 'queue position (utimens)'), ('meta_perm', 'read-only bit (chmod)')):
            bad_all = []
            for b in pubs:
                src = obj_root(arg_role(q.E[b][2], 'src'))
                P = [e for e in q.prim_edges(cls) if obj_root(arg_role(q.E[e][2], 'path')) == src]
                A = outcomes(q, P, 'Ok')
                if q.must_precede(A, [b]):
                    bad_all.append((b, A))
            out.append(inst('R02.1', 'cachedir.%s|%s' % (role, cls), not bad_all and bool(pubs),
                            '%s fixed on the private source before each of %d publish events' % (what, len(pubs)) if not bad_all else
                            'the %s is not (successfully) set on the source before it is published' % what,
                            path=witness_path(q, bad_all[0][0], blocked=bad_all[0][1]) if bad_all else []))
    return out


def r02_2(ctx):
    out = []
    for pub_path in ('raw_cache::insert_or_update', 'raw_cache::insert_or_touch'):
        k = ctx.helper(pub_path)
        q = ctx.explore(k)
        pubs = q.prim_edges({'publish_replace', 'publish_excl'})
        if not pubs:
            out.append(inst('R02.2', pub_path, False, 'no publish primitive in the public publish function'))
            continue
        src = obj_root(arg_role(q.E[pubs[0]][2], 'src'))
        dst = obj_root(arg_role(q.E[pubs[0]][2], 'dst'))
        okE = outcomes(q, pubs, 'Ok')
        after = [e for e in q.effects_after(okE) if cls_of(q.E[e][2]) in prims.MUTATING]
        bad = [e for e in after if not (cls_of(q.E[e][2]) == 'ns_remove_file' and obj_root(arg_role(q.E[e][2], 'path')) == src)]
        out.append(inst('R02.2', pub_path + '|after publish:Ok', not bad,
                        'after a successful publish only unlink(source) follows (%d events)' % len(after) if not bad else
                        'a visible entry is patched after publication: %s' % q.E[bad[0]][2]['path'],
                        path=witness_path(q, bad[0]) if bad else []))
        errE = outcomes(q, pubs, 'Err')
        if cls_of(q.E[pubs[0]][2]) == 'publish_excl':
            after = [e for e in q.effects_after(errE) if cls_of(q.E[e][2]) in prims.MUTATING]
            bad = []
            for e in after:
                ev = q.E[e][2]
                c = cls_of(ev)
                if c == 'ns_remove_file' and obj_root(arg_role(ev, 'path')) == src:
                    continue
                if is_atime_touch_of(ev, dst):
                    continue
                bad.append(e)
            out.append(inst('R02.2', pub_path + '|after link failure', not bad,
                            'after a failed link only set-atime(destination) and unlink(source) follow' if not bad else
                            'after a failed link the code mutates something else: %s' % q.E[bad[0]][2]['path'],
                            path=witness_path(q, bad[0]) if bad else []))
    return out


def const_temp_name(ctx):
    c = ctx.facts['consts'].get('KISMET_TEMPORARY_SUBDIRECTORY')
    if not c or 'str' not in c['val']:
        from ctx import RoleError
        raise RoleError('public constant KISMET_TEMPORARY_SUBDIRECTORY not found')
    return c['val']['str']


def r02_3(ctx):
    out = []
    T = tags_of(ctx)
    ins = ctx.insert_methods()
    wt = ctx.role('write_trait')
    tmp_methods = [n for n, r in ins.items() if r == 'temp_dir']
    # (i) stack: named temp files are created in the write side's temp dir
    for name, k in stack_entries(ctx):
        q = ctx.explore(k, mode='layer')
        C = q.prim_edges({'temp_create_named', 'temp_create_named_default'})
        bad = []
        for e in C:
            ev = q.E[e][2]
            d = arg_role(ev, 'dir')
            root = obj_root(d) if d is not None else None
            t = VAL[root] if root is not None else None
            if not (t is not None and t[0] == 'sym' and t[1] == 'app' and t[2] in ['trait::%s::%s' % (wt, n) for n in tmp_methods]):
                bad.append(e)
        if C:
            out.append(inst('R02.3', name + '|named temp files', not bad,
                            '%d named temp-file creations, all in the directory returned by the write side\'s temp-dir operation' % len(C)
                            if not bad else 'a named temporary file is created outside the write side\'s temp directory: %s'
                            % show(arg_role(q.E[bad[0]][2], 'dir'), 3)[:120], path=witness_path(q, bad[0]) if bad else []))
    # (ii) implementations of the temp-dir operation return a temp-accessor path
    for n in tmp_methods:
        for k in sorted(ctx.cg.impl_targets(wt, n)):
            q = ctx.explore(k)
            oks = q.terminals(lambda ev: ev['k'] == 'ret' and ev.get('variant') == 'Ok')
            bad = [t for t in oks if 'TempDir' not in T.tags(q.g.term[t]['payload'][0])]
            out.append(inst('R02.3', 'impl|' + ctx.B[k]['path'], not bad and bool(oks),
                            'every Ok exit returns the temp accessor\'s path (%d exits)' % len(oks) if not bad else
                            'temp-dir operation returns a path that is not the temp accessor\'s: %s' % show(q.g.term[bad[0]]['payload'][0], 3)[:100]))
    # (iii) temp accessors push the public constant
    name = const_temp_name(ctx)
    tr = ctx.traits[ctx.role('cachedir_trait')]
    for imp in tr['impls']:
        k = imp['methods'].get(T.roles['temp'])
        q = ctx.explore(k, opaque='none')
        rets = q.terminals(lambda ev: ev['k'] == 'ret')
        ok = bool(rets)
        how = ''
        for t in rets:
            v = q.g.term[t]['val']
            strs = [VAL[s][1] for s in values.subs(v) if VAL[s][0] == 'str']
            if name in strs:
                how = 'pushes %r' % name
                continue
            # a field of self: look at the constructors of the type
            flds = [VAL[s][3] for s in values.subs(v) if VAL[s][0] == 'sym' and VAL[s][1] == 'fld']
            found = False
            for ck, cb in ctx.B.items():
                if cb['def_kind'] == 'AssocFn' and ctx.T[cb['locals'][0]['ty']]['s'] == imp['self_ty_s'] and cb['public']:
                    qc = ctx.explore(ck, opaque='none')
                    for tt in qc.terminals(lambda ev: ev['k'] == 'ret'):
                        rv = qc.g.term[tt]['val']
                        if VAL[rv][0] == 'agg' and flds:
                            fi = int(flds[-1][1:])
                            fv = VAL[rv][3 + fi] if 3 + fi < len(VAL[rv]) else None
                            if fv is not None and name in [VAL[s][1] for s in values.subs(fv) if VAL[s][0] == 'str']:
                                found = True
                                how = 'field %s set by %s to <dir>/%s' % (flds[-1], cb['path'], name)
            ok = ok and found
        out.append(inst('R02.3', 'accessor|' + imp['self_ty_s'], ok, how if ok else
                        'the temp accessor of %s is not built by pushing the constant %r' % (imp['self_ty_s'], name)))
    return out


def r02_4(ctx):
    out = []
    k = ctx.helper('raw_cache::prune')
    eff = ctx.cg.effects(k) & prims.MUTATING
    out.append(inst('R02.4', 'prune', eff <= {'ns_remove_file', 'meta_times'} and bool(eff), 'mutating effects of prune: %s' % sorted(eff)))
    tk = c17.temp_cleanup_key(ctx)
    eff = ctx.cg.effects(tk) & prims.MUTATING
    out.append(inst('R02.4', 'temp cleanup', eff <= {'ns_remove_file'} and bool(eff), 'mutating effects of temp cleanup: %s' % sorted(eff)))
    return out


def r02_5(ctx):
    out = []
    for i in c17.r17_3_4(ctx):
        if i['rule'] == 'R17.3':
            out.append(inst('R02.5', i['key'].split('|', 1)[1], i['ok'], i['detail'], path=i['path']))
    return out


def r02_8(ctx):
    """debris is reclaimed: every unlink of the temp sweep names exactly <temp dir>/<the listed entry> (= R17.4).  A scratch
    path that keeps a stale component (a `pop()` skipped on the error path) makes every later unlink of the sweep miss its
    file, so stale debris is never removed although the sweep "runs"."""
    out = []
    for i in c17.r17_3_4(ctx):
        if i['rule'] == 'R17.4':
            out.append(inst('R02.8', i['key'].split('|', 1)[1], i['ok'], i['detail'], path=i['path']))
    return out


def r02_6(ctx):
    out = []
    m = ctx.cachedir_methods()
    for role in ('set', 'put'):
        q = ctx.explore(m[role])
        pubs = q.prim_edges({'publish_replace', 'publish_excl'})
        mk = [e for e in q.prim_edges('ns_create_dir') if path_class(ctx, q, arg_role(q.E[e][2], 'path')) in ('parent(Base/Key)', 'Base')]
        oks = q.terminals(lambda ev: ev['k'] == 'ret' and ev.get('variant') == 'Ok')
        attempt = pubs + [e for e in q.prim_edges('meta_times') if path_class(ctx, q, arg_role(q.E[e][2], 'path')) == 'Value']
        # "the first attempt is seen to have failed": control leaves a function of the publish body with Err
        pub_fns = {k for k in ctx.B if k != m[role] and (ctx.cg.effects(k) & {'publish_replace', 'publish_excl'})}
        tested = q.edges(lambda ev: ev['k'] == 'leave' and ev['key'] in pub_fns and ev.get('ret') == 1 and
                         ctx.T[ctx.B[ev['key']]['locals'][0]['ty']].get('adt') == 'std::result::Result')
        # (a) after the first attempt is seen to have failed, an Ok exit needs a further attempt
        esc = q.must_follow(tested, attempt, oks)
        # (b) on that way the directory can be (re)created: failure -> mkdir -> attempt is a feasible path
        r1 = q.reach_fwd([q.E[e][1] for e in tested])
        mk_after = [e for e in mk if q.E[e][0] in r1]
        r2 = q.reach_fwd([q.E[e][1] for e in outcomes(q, mk_after, 'Ok')]) if mk_after else set()
        retry_after_mkdir = [e for e in attempt if q.E[e][0] in r2]
        # (c) no attempt after a failed mkdir whose error was not inspected
        ok = bool(tested) and not esc and bool(mk_after) and bool(retry_after_mkdir)
        out.append(inst('R02.6', 'cachedir.%s' % role, ok,
                        'first failure => the directory can be created (%d mkdir sites) => another attempt; Ok exits need that attempt' % len(mk_after) if ok else
                        'after a failed first publish attempt the write does not (re)create the directory and retry '
                        '(failure tests %d, mkdir sites after failure %d, attempts after mkdir %d)' % (len(tested), len(mk_after), len(retry_after_mkdir))))
    return out


def r02_7(ctx):
    """"debris older than the limit is removed by later maintenance": the sweep of the temporary directory is
    per-entry best effort -- a failure to stat or unlink one entry (a stale subdirectory, someone else's file, a peer
    that won the race) must not end the sweep: from the Err outcome of every per-entry call, every path to the end of
    the sweep asks the directory stream for its next entry first."""
    key = c17.temp_cleanup_key(ctx)
    q = ctx.explore(key)

    def entry_of(v):
        return v is not None and any(VAL[x][0] == 'sym' and VAL[x][1] == 'app' and VAL[x][2].endswith('::next') and
                                     any(VAL[y][0] == 'sym' and VAL[y][1] == 'app' and prims.classify(VAL[y][2])[0] == 'list_dir' for y in values.subs(x))
                                     for x in values.subs(v))
    per_entry = q.edges(lambda ev: ev['k'] == 'ext' and (prims.classify_event(ev)[0] in ('probe', 'ns_remove_file') or ev['path'] in ('std::fs::Metadata::modified', 'std::fs::Metadata::accessed'))
                        and any(entry_of(a) for a in ev['args']))
    nexts = q.edges(lambda ev: ev['k'] == 'ext' and ev['path'].endswith('::next') and
                    any(VAL[y][0] == 'sym' and VAL[y][1] == 'app' and prims.classify(VAL[y][2])[0] == 'list_dir' for a in ev['args'] if a is not None for y in values.subs(a)))
    errs = outcomes(q, per_entry, 'Err')
    ends = q.terminals(lambda ev: ev['k'] == 'ret')
    esc = q.must_follow(errs, nexts, ends) if errs else []
    ok = bool(per_entry) and bool(nexts) and bool(errs) and not esc
    return [inst('R02.7', 'tempcleanup.sweep continues past failures', ok,
                 'after a failed per-entry stat/unlink (%d sites) the sweep always asks for the next entry before it ends' % len(per_entry) if ok else
                 ('a failure on one temporary file (%s) can end the sweep: the stale files after it in the listing are never removed' % q.E[esc[0]][2]['site'][2]
                  if esc else 'per-entry calls of the temporary-directory sweep not found'),
                 path=witness_path(q, esc[0]) if esc else [])]


def run(ctx):
    from runner import collect
    return collect(ctx, r02_1, r02_2, r02_3, r02_4, r02_5, r02_6, r02_7, r02_8)
