"""C04 -- per-key linearizability: the structural facts without which it cannot hold (DESIGN §5 C04, narrow)."""
import prims
import values
from values import VAL, show
from runner import inst
from rules import sites
from rules.common import (tags_of, cls_of, witness_path, arg_role, obj_root, outcomes, path_class, strip_view, callback_kind, is_atime_touch_of)
from rules.c15 import stack_entries
from graph import path_brief

EXPLANATION = ('Existence of a linearization for every schedule is NOT decided. Decided: (R04.1) the cache-directory put publishes '
               'only through hard_link (one atomic exclusive step), set only through rename; (R04.2) on link failure with kind '
               'AlreadyExists the destination is touched and the source unlinked before an Ok exit, any other kind reaches only '
               'Err exits; (R04.3) the handle in a lookup\'s Ok(Some) exit is the payload of an open of (directory + key) made by that '
               'lookup (the number of attempts is C20\'s concern); (R04.4) in the stacked miss path, put:Ok is followed on every path to an Ok exit '
               'by a write-side lookup of the same key, whose hit can be what is returned; (R04.5) every Ok exit of the '
               'cache-directory set/put is dominated by a successful publish or the link-found-it branch (= R18.2).')
FLOORS = {'R04.1': 2, 'R04.2': 3, 'R04.3': 2, 'R04.4': 2, 'R04.5': 2}


def r04_1(ctx):
    out = []
    m = ctx.cachedir_methods()
    for role, want in (('set', 'publish_replace'), ('put', 'publish_excl')):
        q = ctx.explore(m[role])
        got = {cls_of(q.E[e][2]) for e in q.prim_edges({'publish_replace', 'publish_excl'})}
        probes_before = []
        out.append(inst('R04.1', 'cachedir.%s' % role, got == {want},
                        '%s publishes only through %s' % (role, want) if got == {want} else
                        '%s publishes through %s (expected exactly %s): a check-then-rename put is not one atomic step' % (role, sorted(got), want)))
    return out


def r04_2(ctx):
    out = []
    k = ctx.helper('raw_cache::insert_or_touch')
    q = ctx.explore(k)
    links = q.prim_edges('publish_excl')
    if not links:
        return [inst('R04.2', 'link', False, 'insert_or_touch has no exclusive publish')]
    ev = q.E[links[0]][2]
    src, dst = obj_root(arg_role(ev, 'src')), obj_root(arg_role(ev, 'dst'))
    err = sites.err_value(ev)

    def kind_test(x, eq):
        if x['k'] != 'branch' or x.get('eq') != eq:
            return False
        t = VAL[x['val']]
        if not (t[0] == 'sym' and t[1] == 'cmp' and t[2] == 'Eq' and err in values.subs(x['val'])):
            return False
        ek = [t2 for t2 in ctx.T if t2.get('adt') == 'std::io::ErrorKind' and t2.get('variants')][0]
        idx = [i for i, v in enumerate(ek['variants']) if v['name'] == 'AlreadyExists'][0]
        return any(VAL[s][0] == 'agg' and VAL[s][1] == 'std::io::ErrorKind' and int(VAL[s][2][1:]) == idx for s in values.subs(x['val']))
    A = q.edges(lambda x: kind_test(x, 1))
    N = q.edges(lambda x: kind_test(x, 0))
    oks = q.terminals(lambda e: e['k'] == 'ret' and e.get('variant') == 'Ok')
    touch = [e for e in q.prim_edges({'meta_atime', 'meta_times_h'}) if is_atime_touch_of(q.E[e][2], dst)]
    rm = [e for e in q.prim_edges('ns_remove_file') if obj_root(arg_role(q.E[e][2], 'path')) == src]
    esc1 = q.must_follow(A, touch, oks)
    out.append(inst('R04.2', 'exists=>touch', bool(A) and not esc1, 'link fails with AlreadyExists => destination touched before any Ok exit' if A and not esc1 else
                    'a put that finds the entry present does not touch it (or the AlreadyExists case is not recognised)'))
    esc2 = q.must_follow(A, rm, oks)
    out.append(inst('R04.2', 'exists=>source consumed', bool(A) and not esc2, 'link fails with AlreadyExists => source unlinked before any Ok exit' if A and not esc2 else
                    'a put that finds the entry present does not consume its source'))
    r = q.reach_fwd([q.E[x][1] for x in N]) if N else set()
    bad = [t for t in oks if t in r]
    # ... and the AlreadyExists test is the *only* way from a failed link to a successful return
    LE = outcomes(q, links, 'Err')
    leak = q.must_follow(LE, A, oks) if LE else []
    ok2 = bool(N) and not bad and bool(LE) and not leak
    out.append(inst('R04.2', 'other kinds propagate', ok2, 'a failed link reaches an Ok exit only through the AlreadyExists test; any other error reaches only Err exits' if ok2 else
                    ('a link failure other than AlreadyExists can end in success' if bad or not N else
                     'a failed link can be reported as success without the destination having been found to exist (put may return Ok without taking effect)'),
                    path=witness_path(q, leak[0]) if leak else []))
    # no publish_replace reachable after the link (put never overwrites)
    return out


def r04_3(ctx):
    out = []
    m = ctx.cachedir_methods()
    for name, k in (('cachedir.get', m['get']), ('plain::Cache::get', ctx.key_of('plain::Cache::get'))):
        q = ctx.explore(k)
        opens = [e for e in q.prim_edges('open_ro') if path_class(ctx, q, arg_role(q.E[e][2], 'path')) == 'Base/Key']
        n = q.max_count(opens)
        ress = {q.E[e][2]['res'] for e in opens}
        hits = q.terminals(lambda ev: ev['k'] == 'ret' and ev.get('variant') == 'Ok' and ev.get('variant2') == 'Some')
        bad = [t for t in hits if strip_view(values.mut_root(q.g.term[t]['payload2'][0])) not in ress]
        # any successful open of (directory + key) is a valid linearization point; how many attempts is C20's concern
        ok = n >= 1 and bool(hits) and not bad
        out.append(inst('R04.3', name, ok, 'the returned handle is the payload of an open of (directory + key) (%d hit exits, <= %s attempts)' % (len(hits), n) if ok else
                        'lookup does not return the handle of an open of (directory + key) (open attempts on that path: %s, foreign handles: %d)' % (n, len(bad))))
    return out


def r04_4(ctx):
    out = []
    wt = ctx.role('write_trait')
    ins = ctx.insert_methods()
    for name, k in stack_entries(ctx):
        q = ctx.explore(k, mode='layer')
        puts = q.edges(lambda ev: ev['k'] == 'traitcall' and ev['trait'] == wt and ins.get(ev['method']) == 'put')
        # the miss path's put: its object was written by the populate callback
        miss = []
        for e in puts:
            root = obj_root(q.E[e][2]['args'][2])
            W = q.edges(lambda ev: ev['k'] == 'usercb' and callback_kind(ctx, q, ev) == 'populate' and ev['args'] and obj_root(ev['args'][0]) == root)
            # ... and by nothing else: a file that also receives a copy of a hit is a promotion, not the miss path
            copied = q.edges(lambda ev: ev['k'] == 'ext' and cls_of(ev) == 'content_write' and arg_role(ev, 'src') is not None
                             and obj_root(arg_role(ev, 'handle')) == root)
            if W and not copied:
                miss.append(e)
        if not miss:
            continue
        gets = q.edges(lambda ev: ev['k'] == 'traitcall' and ev['trait'] == wt and ins.get(ev['method']) == 'get')
        oks = q.terminals(lambda ev: ev['k'] == 'ret' and ev.get('variant') == 'Ok')
        A = outcomes(q, miss, 'Ok')
        esc = q.must_follow(A, gets, oks)
        # and the re-read's hit can be returned
        rr = {q.E[g][2]['res'] for g in gets if not q.must_precede(miss, [g])}
        returned = [t for t in oks if any(s in rr for s in values.subs(q.g.term[t]['val']))]
        ok = bool(A) and not esc and bool(returned)
        out.append(inst('R04.4', name, ok, 'put:Ok => write-side re-read on every path; its hit is returned (%d exits)' % len(returned) if ok else
                        'after inserting on a miss the stacked cache does not re-read the write cache (racing ensure calls may return different values)',
                        path=witness_path(q, esc[0]) if esc else []))
    return out


def r04_5(ctx):
    """a set/put that returns Ok has taken effect: every Ok exit of the cache-directory inserts is dominated by a
    successful publish or by the link-found-the-entry branch (shared with R18.2).  Otherwise a later lookup can still
    return an older value, or miss, after the write returned."""
    from rules import c18
    return [inst('R04.5', i['key'].split('|', 1)[1], i['ok'], i['detail'], path=i.get('path') or [])
            for i in c18.r18_2(ctx) if i['key'].split('|', 1)[1].startswith('cachedir.')]


def run(ctx):
    from runner import collect
    return collect(ctx, r04_1, r04_2, r04_3, r04_4, r04_5)
