"""C14 -- a configured consistency checker sees every redundant copy (DESIGN §5 C14)."""
import prims
import values
from values import VAL, show
from runner import inst
from rules import sites
from rules.common import (tags_of, cls_of, witness_path, arg_role, obj_root, outcomes, outcome_edges, path_class, strip_view,
                          callback_kind, is_temp_object)
from rules.c13 import entry, ro_entry, tc, judge_calls, hit_kind
from graph import path_brief

EXPLANATION = ('What an arbitrary checker does is not decided; whether it is called, with what, and whether its verdict can be lost '
               'is, on all paths and for a stack of any depth (the loop is analysed, not unrolled): (R14.1) the Err outcome of '
               'every checker call reaches only Err exits carrying it, no catch_unwind exists; (R14.2) with a checker the '
               'read-only scan reaches an Ok exit after a hit only through the exhaustion of the iterator, and a hit found '
               'while a previous one is held is followed by a checker call before the next iteration; without one the first '
               'hit ends the scan (C13); (R14.3) with a checker, a write-side hit in get and get_or_update is followed by the '
               'read-side lookup, and a read-side hit there by a checker call, before any Ok exit; (R14.4) with a checker, after '
               'Accept/Promote populate is called into an anonymous temp file; populate:Ok is followed by a checker call before '
               'any Ok exit, Err of kind NotFound returns the hit, any other Err reaches only Err exits; (R14.5) the builder stores '
               'the checker in its own field and in the read-side builder\'s, and both build() move those fields into the built '
               'objects\' checker fields.')
FLOORS = {'R14.1': 4, 'R14.2': 2, 'R14.3': 4, 'R14.4': 3, 'R14.5': 4}
FIXTURE_RULES = ['R14.1']


def checker_calls(ctx, q):
    return q.edges(lambda ev: ev['k'] == 'usercb' and callback_kind(ctx, q, ev) == 'checker')


def r14_1(ctx):
    out = []
    hits = []
    for k, calls in ctx.cg.ext_calls.items():
        for (np, cls, site) in calls:
            if cls == 'catch_unwind':
                hits.append('%s %s in %s' % (site['span'], np, ctx.B[k]['path']))
    out.append(inst('R14.1', 'crate|no catch_unwind', not hits, 'a checker panic unwinds to the caller: no catch_unwind in the crate' if not hits else
                    'catch_unwind present: %s' % hits[:2], path=hits))
    if not ctx.facts.get('crate', '').startswith('kismet'):
        return out
    recs = sites.analyse(ctx, sites.lower_entries(ctx) + sites.stack_level_entries(ctx))
    for rec in recs:
        if rec['site'] != 'callback:checker':
            continue
        ok = not rec['dropped'] and not rec['escapes'] and rec['inspected'] and bool(rec['surfaces'])
        q = rec['q']
        path = []
        if rec['dropped']:
            path = witness_path(q, rec['dropped'][0])
        elif rec['escapes']:
            path = witness_path(q, rec['escapes'][0][1])
        out.append(inst('R14.1', rec['entry'] + '|verdict propagates', ok,
                        'checker Err reaches only Err exits carrying it (%d call sites)' % len(rec['edges']) if ok else
                        'a consistency-checker verdict can be dropped: the call succeeds although the checker reported a mismatch', path=path))
    return out


def read_hits(q, rt, method_role='get'):
    R = q.edges(lambda ev: ev['k'] == 'traitcall' and ev['trait'] == rt)
    hits = []
    for e in R:
        pay = values.SYM('vf', q.E[e][2]['res'], 'v0', 'f0')
        hits += q.edges(lambda x: x['k'] == 'refine' and x['val'] == pay and x['vname'] == 'Some')
    return R, hits


def r14_2(ctx):
    out = []
    rt = ctx.role('read_trait')
    name, k = ro_entry(ctx, 'get')
    q = ctx.explore(k, mode='layer', facts=ctx.spec_facts(k, checker='some'), tag='chk')
    R, hits = read_hits(q, rt)
    nexts = q.edges(lambda ev: ev['k'] == 'ext' and (ev['path'].endswith('::next') or ev['path'].endswith('::split_first')))
    exhausted = []
    for e in nexts:
        res = q.E[e][2]['res']
        exhausted += q.edges(lambda x: x['k'] == 'refine' and x['val'] == res and x['vname'] == 'None')
    oks = q.terminals(lambda ev: ev['k'] == 'ret' and ev.get('variant') == 'Ok')
    esc = q.must_follow(hits, exhausted, oks)
    out.append(inst('R14.2', name + '|scan completes', bool(hits) and bool(exhausted) and not esc,
                    'with a checker, an Ok exit after a hit lies below the exhaustion of the stack iterator' if hits and not esc else
                    'with a checker configured the scan can return a hit without consulting the remaining caches',
                    path=witness_path(q, esc[0]) if esc else []))
    C = checker_calls(ctx, q)
    later = [h for h in hits if q.E[h][0] in q.reach_fwd([q.E[x][1] for x in hits])]
    until = {q.E[e][0] for e in nexts} | set(q.terminals())
    esc = q.must_follow(later, C, until)
    first_arg_ok = all(len(q.E[c][2]['args']) == 2 for c in C)
    out.append(inst('R14.2', name + '|later hits compared', bool(later) and bool(C) and not esc and first_arg_ok,
                    'a hit found while an earlier one is held is compared with it before the scan continues (%d checker sites)' % len(C) if later and C and not esc else
                    'a later copy of the key is not passed to the checker',
                    path=witness_path(q, esc[0]) if esc else []))
    return out


def r14_3(ctx):
    out = []
    wt, rt = ctx.role('write_trait'), ctx.role('read_trait')
    ins = ctx.insert_methods()
    for meth in ('get', 'get_or_update'):
        name, k = entry(ctx, meth)
        q = ctx.explore(k, mode='layer', facts=ctx.spec_facts(k, checker='some', write_side='some'), tag='chk-ws')
        W = tc(q, wt, {'get'}, ins)
        # only the initial lookup (not the re-read after put)
        puts = tc(q, wt, {'put'}, ins)
        W = [e for e in W if not puts or q.must_precede(puts, [e])]
        # ... nor any other lookup of the miss path: one that can only run after the populate callback
        pops = q.edges(lambda x: x['k'] == 'usercb' and callback_kind(ctx, q, x) == 'populate')
        if pops:
            W = [e for e in W if q.must_precede(pops, [e])]
        whits = []
        for e in W:
            pay = values.SYM('vf', q.E[e][2]['res'], 'v0', 'f0')
            whits += q.edges(lambda x: x['k'] == 'refine' and x['val'] == pay and x['vname'] == 'Some')
        R = q.edges(lambda ev: ev['k'] == 'traitcall' and ev['trait'] == rt)
        # "the read side was scanned": a read-side lookup, or the stack found empty / exhausted
        scanned = R + q.edges(lambda ev: ev['k'] == 'branch' and ev.get('eq') == 1 and VAL[ev['val']][0] == 'sym' and VAL[ev['val']][1] == 'app'
                              and VAL[ev['val']][2] in ('core::slice::is_empty', 'std::vec::Vec::is_empty'))
        for e in q.edges(lambda ev: ev['k'] == 'ext' and (ev['path'].endswith('::next') or ev['path'].endswith('::split_first'))):
            res = q.E[e][2]['res']
            scanned += q.edges(lambda x: x['k'] == 'refine' and x['val'] == res and x['vname'] == 'None')
        oks = q.terminals(lambda ev: ev['k'] == 'ret' and ev.get('variant') == 'Ok')
        esc = q.must_follow(whits, scanned, oks)
        out.append(inst('R14.3', name + '|read side consulted after a write-side hit', bool(whits) and not esc,
                        'with a checker, a write-side hit is followed by the read-side lookup before any Ok exit' if whits and not esc else
                        'with a checker configured a write-side hit is returned without looking for other copies',
                        path=witness_path(q, esc[0]) if esc else []))
        after = q.reach_fwd([q.E[x][1] for x in whits])
        rhits = [h for h in read_hits(q, rt)[1] if q.E[h][0] in after]
        C = checker_calls(ctx, q)
        esc = q.must_follow(rhits, C, oks)
        out.append(inst('R14.3', name + '|copies compared', bool(rhits) and not esc,
                        'a read-side copy found after a write-side hit is passed to the checker before any Ok exit' if rhits and not esc else
                        'the write-side hit is not compared with the read-side copy', path=witness_path(q, esc[0]) if esc else []))
    return out


def r14_4(ctx):
    out = []
    name, k = entry(ctx, 'get_or_update')
    ek = [t for t in ctx.T if t.get('adt') == 'std::io::ErrorKind' and t.get('variants')]
    nf = [i for i, v in enumerate(ek[0]['variants']) if v['name'] == 'NotFound'][0]
    for ws in ('some', 'none'):
        q = ctx.explore(k, mode='layer', facts=ctx.spec_facts(k, checker='some', write_side=ws), tag='chk-' + ws)
        J = judge_calls(ctx, q)
        oks = q.terminals(lambda ev: ev['k'] == 'ret' and ev.get('variant') == 'Ok')
        errs = q.terminals(lambda ev: ev['k'] == 'ret' and ev.get('variant') == 'Err')
        for kind, kname in ((0, 'Primary'), (1, 'Secondary')):
            js = [e for e in J if hit_kind(q.E[e][2])[0] == kind]
            if not js:
                continue
            E = []
            for e in js:
                res = q.E[e][2]['res']
                E += q.edges(lambda x: x['k'] == 'refine' and x['val'] == res and x['vname'] in ('Accept', 'Promote'))
            label = '%s|write side %s' % (kname, ws)
            after = set(q.effects_after(E))
            pops = [x for x in after if q.E[x][2]['k'] == 'usercb' and callback_kind(ctx, q, q.E[x][2]) == 'populate']
            # populate is called on every path from the arm to an Ok exit
            esc = q.must_follow(E, pops, oks)
            # populated into a private temporary file of this very call (anonymous or named), never into the hit itself
            anon = bool(pops) and all(is_temp_object(obj_root(q.E[x][2]['args'][0])) for x in pops)
            C = [c for c in checker_calls(ctx, q) if c in after]
            okE = [x for x in outcomes(q, pops, 'Ok') if x in after]   # same-site results of the other arm are not ours
            esc2 = q.must_follow(okE, C, oks)
            why = []
            if esc:
                why.append('the hit can be returned without calling populate for comparison')
            if not anon:
                why.append('the comparison value is not populated into a private temporary file')
            if esc2 or not okE:
                why.append('a successfully populated value is not passed to the checker')
            # Err handling: NotFound => Ok(hit); others => Err
            bad_other = []
            nf_ok = False
            for x in pops:
                ev = q.E[x][2]
                errv = sites.err_value(ev)
                isnf = q.edges(lambda b: b['k'] == 'branch' and VAL[b['val']][0] == 'sym' and VAL[b['val']][1] == 'cmp' and errv in values.subs(b['val'])
                               and any(VAL[s][0] == 'agg' and VAL[s][1] == 'std::io::ErrorKind' and int(VAL[s][2][1:]) == nf for s in values.subs(b['val'])))
                t_edges = [b for b in isnf if q.E[b][2].get('eq') == 1 and b in after]
                f_edges = [b for b in isnf if q.E[b][2].get('eq') == 0 and b in after]
                if t_edges and (q.reach_fwd([q.E[b][1] for b in t_edges]) & set(oks)):
                    nf_ok = True
                r = q.reach_fwd([q.E[b][1] for b in f_edges]) if f_edges else set()
                if not f_edges or (r & set(oks)):
                    bad_other.append(x)
            if not nf_ok:
                why.append('populate returning NotFound no longer returns the hit')
            if bad_other:
                why.append('a populate error other than NotFound can end in success')
            out.append(inst('R14.4', label, not why, 'populate comparison wired as documented (%d populate sites, %d checker sites)' % (len(pops), len(C)) if not why else '; '.join(why),
                            path=witness_path(q, esc[0]) if esc else []))
    return out


def r14_5(ctx):
    out = []
    sc, ro = ctx.role('stack_cache'), ctx.role('readonly_cache')
    f, rf = ctx.stack_fields(), ctx.readonly_fields()
    # builders: public types whose build() returns the cache types
    for k, b in ctx.B.items():
        if not b['public'] or b['def_kind'] != 'AssocFn' or b.get('impl_trait'):
            continue
        ret = ctx.T[b['locals'][0]['ty']]
        if ret.get('adt') in (sc, ro) and b['arg_count'] == 1 and ctx.T[b['locals'][1]['ty']]['k'] == 'adt':
            q = ctx.explore(k, opaque='none')
            bt = ctx.T[b['locals'][1]['ty']]

            def from_builder(cv):
                """cv is a projection chain param1.fI(.fJ) that ends in a checker-typed field of the builder"""
                chain = []
                while cv is not None and VAL[cv][0] == 'sym' and VAL[cv][1] == 'fld':
                    chain.append(int(VAL[cv][3][1:]))
                    cv = VAL[cv][2]
                if cv is None or not (VAL[cv][0] == 'sym' and VAL[cv][1] == 'param') or not chain:
                    return False
                ty = bt
                for i in reversed(chain):
                    if not ty.get('variants'):
                        return False
                    ty = ctx.T[ty['variants'][0]['fields'][i]['ty']]
                return 'Fn(' in ty['s']

            rets = q.terminals(lambda ev: ev['k'] == 'ret')
            ok = bool(rets)
            nslots = 0
            for t in rets:
                v = q.g.term[t]['val']
                if VAL[v][0] != 'agg':
                    ok = False
                    continue
                fields = VAL[v][3:]
                slots = []
                if ret.get('adt') == sc:
                    if f['checker'] is not None:
                        slots.append(fields[f['checker']])
                    rsv = VAL[fields[f['read_side']]]
                    slots.append(rsv[3 + rf['checker']] if rsv[0] == 'agg' and len(rsv) > 3 + rf['checker'] else None)
                else:
                    slots.append(fields[rf['checker']])
                nslots = max(nslots, len(slots))
                # on *every* exit, every checker slot of the built cache holds the builder's checker
                if not all(from_builder(cv) for cv in slots):
                    ok = False
            out.append(inst('R14.5', b['path'], ok, 'on every exit of build() the builder\'s checker field(s) end up in the built object\'s %d checker slot(s)' % nslots if ok else
                            'build() has an exit on which the configured checker is not carried into the built cache (the cache would silently run without it)'))
        # setters taking Option<Arc<dyn Fn>>
        if b['arg_count'] == 2 and 'Fn(' in ctx.T[b['locals'][2]['ty']]['s'] and ctx.T[b['locals'][2]['ty']].get('adt') == 'std::option::Option':
            q = ctx.explore(k, opaque='none')
            sty = ctx.T[ctx.T[b['locals'][1]['ty']]['to']] if ctx.T[b['locals'][1]['ty']]['k'] == 'ref' else None
            if sty is None or not sty.get('variants'):
                continue
            bfields = sty['variants'][0]['fields']
            need = [(('f', i),) for i, x in enumerate(bfields) if 'Fn(' in ctx.T[x['ty']]['s']]
            # nested builder (read side): its own checker field
            for i, x in enumerate(bfields):
                xt = ctx.T[x['ty']]
                if xt.get('local') and xt.get('variants') and not xt.get('is_enum'):
                    for j, y in enumerate(xt['variants'][0]['fields']):
                        if 'Fn(' in ctx.T[y['ty']]['s']:
                            need.append((('f', i), ('f', j)))
            ok = True
            for t in q.terminals(lambda ev: ev['k'] == 'ret'):
                heap = q.g.term[t].get('heap', {})
                for proj in need:
                    vals = [v for kk, v in heap.items() if kk[2] == proj]
                    if not vals or not all(VAL[v][0] == 'sym' and VAL[v][1] == 'param' and VAL[v][2] == '2' for v in vals):
                        ok = False
            out.append(inst('R14.5', b['path'], ok and bool(need), 'the setter stores its argument into %d checker field(s) (own and read side)' % len(need) if ok else
                            'the checker setter does not install the checker on every level (fields %s)' % need))
    return out


def run(ctx):
    from runner import collect
    return collect(ctx, r14_1, r14_2, r14_3, r14_4, r14_5)


def run_fixture(fctx):
    return {'R14.1': sum(1 for i in r14_1(fctx) if not i['ok'])}
