"""C11 -- sequential histories behave like a map: the structural sentences (DESIGN §5 C11, narrow)."""
import prims
import values
from values import VAL, show
from runner import inst
from rules import sites
from rules.common import (tags_of, cls_of, witness_path, arg_role, obj_root, outcomes, path_class)
from graph import path_brief

EXPLANATION = ('Map-equivalence of arbitrary histories and attribution of evictions are NOT decided. Decided: (R11.1) in every '
               'publish function and cache-directory insert, every Ok exit is dominated by unlink(source) with outcome Ok or '
               'benign-absent ("a successful set or put always consumes its source"); (R11.2) in the sharded set/put a stat of '
               '(candidate shard x + key) precedes every publish; below its Ok outcome the insert targets shard x, below its Err '
               'outcome the other candidate, both being the two components of the pair computed for this key ("never two copies"); '
               '(R11.3) in the sharded get/touch the miss/false outcome of the first candidate leads to the same operation on the '
               'second candidate, and the candidates are the two components of the key\'s pair; (R11.4) set publishes onto '
               '(directory + key) only by a replacing rename, never by an exclusive link; (R11.5) promotion inserts with put, never set (= R13.3).')
FLOORS = {'R11.1': 4, 'R11.2': 4, 'R11.3': 4, 'R11.4': 3, 'R11.5': 2, 'R11.6': 2}


def r11_1(ctx):
    out = []
    m = ctx.cachedir_methods()
    entries = [('raw_cache::insert_or_update', ctx.helper('raw_cache::insert_or_update')),
               ('raw_cache::insert_or_touch', ctx.helper('raw_cache::insert_or_touch')),
               ('cachedir.set', m['set']), ('cachedir.put', m['put'])]
    for name, k in entries:
        q = ctx.explore(k)
        pubs = q.prim_edges({'publish_replace', 'publish_excl'})
        if not pubs:
            out.append(inst('R11.1', name, False, 'no publish primitive'))
            continue
        src = obj_root(arg_role(q.E[pubs[0]][2], 'src'))
        rm = [e for e in q.prim_edges('ns_remove_file') if obj_root(arg_role(q.E[e][2], 'path')) == src]
        A = outcomes(q, rm, 'Ok')
        for e in rm:
            A += sites.benign_edges(ctx, q, q.E[e][2])
        oks = q.terminals(lambda ev: ev['k'] == 'ret' and ev.get('variant') == 'Ok')
        r = q.reach_fwd([q.g.entry], blocked=A)
        bad = [t for t in oks if t in r]
        out.append(inst('R11.1', name, bool(rm) and not bad, 'every Ok exit is dominated by unlink(source) Ok-or-absent (%d unlink sites)' % len(rm) if rm and not bad else
                        'the operation can succeed while leaving its source file in place',
                        path=path_brief(q.witness(bad[0], blocked=A) or [])[-10:] if bad else []))
    return out


def tuple_component(v):
    """(call term without component, index) when v is 'app(<path>.<i>, site, args)'."""
    t = VAL[v]
    if t[0] == 'sym' and t[1] == 'app' and t[2].rsplit('.', 1)[-1].isdigit():
        base, i = t[2].rsplit('.', 1)
        return (base, t[3], t[4:]), int(i)
    return None, None


def shard_ids_in(v):
    """maximal tuple components appearing in a path term (candidate shard ids): components nested in
    the arguments of another component are not candidates themselves."""
    comps = []
    for s in values.subs(v):
        c, i = tuple_component(s)
        if c is not None:
            comps.append((s, c, i))
    out = []
    for (s, c, i) in comps:
        if not any(s != s2 and s in values.subs(s2) for (s2, _, _) in comps):
            out.append((s, c, i))
    return out


def r11_2(ctx):
    out = []
    for p in ('sharded::Cache::set', 'sharded::Cache::put'):
        q = ctx.explore(ctx.key_of(p))
        pubs = q.prim_edges({'publish_replace', 'publish_excl'})
        T = tags_of(ctx)

        def is_key_probe(ev):
            # a stat of (some candidate shard directory + the raw key name)
            if prims.classify(ev['path'])[0] != 'probe' or not ev['args']:
                return False
            d, leaf = T.split_path(ev['args'][0])
            if leaf is None:
                return False
            tl = VAL[leaf]
            raw_name = tl[0] == 'sym' and tl[1] in ('fld', 'param') and any(VAL[s_][0] == 'sym' and VAL[s_][1] == 'param' for s_ in values.subs(leaf))
            validated = 'KeyNameValidated' in T.tags(leaf)
            return (raw_name or validated) and bool(shard_ids_in(d))
        after_pub = q.reach_fwd([q.E[e][1] for e in pubs])
        # the existence probe that chooses the shard: a key probe made before anything was published
        probes = [e for e in q.prim_edges('probe') if is_key_probe(q.E[e][2]) and q.E[e][0] not in after_pub]
        bad = q.must_precede(probes, pubs)
        out.append(inst('R11.2', p + '|probe precedes publish', bool(probes) and not bad,
                        'the other candidate shard is probed for the key before every publish (%d publish events)' % len(pubs) if probes and not bad else
                        'a sharded write publishes without first probing the alternate shard: the key can end up stored twice',
                        path=witness_path(q, bad[0], blocked=probes) if bad else []))
        if not probes:
            continue
        pe = q.E[probes[0]][2]
        cands = shard_ids_in(pe['args'][0])
        if len(cands) != 1:
            out.append(inst('R11.2', p + '|probe candidate', False, 'cannot identify the probed candidate shard in %s' % show(pe['args'][0], 4)[:120]))
            continue
        x = cands[0]
        okE = outcomes(q, probes, 'Ok')
        errE = outcomes(q, probes, 'Err')
        after_ok = [e for e in pubs if q.E[e][0] in q.reach_fwd([q.E[a][1] for a in okE], blocked=errE + probes)]
        after_err = [e for e in pubs if q.E[e][0] in q.reach_fwd([q.E[a][1] for a in errE], blocked=okE + probes)]

        def comps(e):
            return frozenset((c[1], c[2]) for c in shard_ids_in(arg_role(q.E[e][2], 'dst')))
        xid = (x[1], x[2])
        so = {comps(e) for e in after_ok}
        se = {comps(e) for e in after_err}
        ok1 = bool(so) and all(s == {xid} for s in so)
        out.append(inst('R11.2', p + '|exists => same shard', ok1,
                        'when the key exists in the probed shard (component %d of the pair) the write goes to that shard' % x[2] if ok1 else
                        'when the key already lives in the probed shard the write does not go to that shard'))
        ok2 = bool(se) and all(len(s) == 2 and xid in s and all(c[0] == xid[0] for c in s) and {c[1] for c in s} == {0, 1} for s in se)
        out.append(inst('R11.2', p + '|absent => other candidate', ok2,
                        'when the probed shard lacks the key the write goes to the other component of the same pair' if ok2 else
                        'when the probed shard lacks the key the write does not go to the other candidate of the pair'))
    return out


def r11_3(ctx):
    out = []
    for p, cls in (('sharded::Cache::get', {'open_ro', 'open_rw'}), ('sharded::Cache::touch', {'meta_atime', 'meta_times', 'meta_times_h'})):
        q = ctx.explore(ctx.key_of(p))
        E = q.prim_edges(cls)
        groups = {}
        for e in E:
            v = arg_role(q.E[e][2], 'path')
            groups.setdefault(frozenset((c[1], c[2]) for c in shard_ids_in(v)), []).append(e)
        firsts = [g for g in groups if len(g) == 1]
        seconds = [g for g in groups if len(g) == 2]
        ok = len(groups) == 2 and len(firsts) == 1 and len(seconds) == 1 and firsts[0] <= seconds[0] and \
            {c[1] for c in seconds[0]} == {0, 1} and len({c[0] for c in seconds[0]}) == 1 and next(iter(firsts[0]))[1] == 0
        out.append(inst('R11.3', p + '|candidates', ok,
                        'first probe = component 0, second = component 1 of the one pair computed for the key' if ok else
                        'lookup candidates are not (pair.0 then pair.1) of one pair: %s' % [sorted((c[0][0], c[1]) for c in g) for g in groups]))
        if not ok:
            continue
        f_edges, s_edges = groups[firsts[0]], groups[seconds[0]]
        miss = []
        for e in f_edges:
            miss += sites.benign_edges(ctx, q, q.E[e][2])
        # Ok exits only: an error may end the operation early (and facts about a repeated pure
        # validation are not kept across calls, so its Err branch reappears as an infeasible path)
        terms = q.terminals(lambda ev: ev['k'] == 'ret' and ev.get('variant') == 'Ok')
        esc = q.must_follow(miss, s_edges, terms)
        out.append(inst('R11.3', p + '|second probe after miss', bool(miss) and not esc,
                        'a miss in the first candidate shard is followed by the same operation on the second' if miss and not esc else
                        'after a miss in the first shard the second candidate is not consulted',
                        path=witness_path(q, esc[0]) if esc else []))
    return out


def r11_4(ctx):
    """"latest set": on every path of the cache-directory set (and of the public set operations) the destination name
    is only ever the target of a replacing publish; an exclusive link there would keep an older value and still report
    success."""
    out = []
    m = ctx.cachedir_methods()
    entries = [('cachedir.set', m['set'])] + [(p, ctx.key_of(p)) for p in ('plain::Cache::set', 'sharded::Cache::set')]
    for name, k in entries:
        q = ctx.explore(k)
        pubs = q.prim_edges({'publish_replace', 'publish_excl'})
        got = sorted({cls_of(q.E[e][2]) for e in pubs if path_class(ctx, q, arg_role(q.E[e][2], 'dst')) == 'Base/Key'})
        ok = got == ['publish_replace']
        bad = [e for e in pubs if cls_of(q.E[e][2]) != 'publish_replace']
        out.append(inst('R11.4', name, ok, 'set publishes onto (directory + key) only by replacing rename' if ok else
                        'set can publish through %s: an existing entry would survive a successful set' % got,
                        path=witness_path(q, bad[0]) if bad else []))
    return out


def r11_5(ctx):
    """"latest set, else first put": promoting a read-side copy into the write cache must behave like a put (never
    overwrite what a peer set in the meantime); shared with the Promote cells of R13.3."""
    from rules import c13
    return [inst('R11.5', i['key'].split('|', 1)[1], i['ok'], i['detail'], path=i.get('path') or [])
            for i in c13.r13_3(ctx) if 'Promote' in i['key'] or 'never replaces' in i['key']]


def r11_6(ctx):
    """a promoted copy is a value some writer supplied: it is copied from the rewound hit into a fresh file (= R13.5), so
    later lookups on the write cache do not return bytes nobody ever set or put."""
    from rules import c13
    return [inst('R11.6', i['key'].split('|', 1)[1], i['ok'], i['detail'], path=i.get('path') or []) for i in c13.r13_5(ctx)]


def run(ctx):
    from runner import collect
    return collect(ctx, r11_1, r11_2, r11_3, r11_4, r11_5, r11_6)
