"""C13 -- stacked caches resolve lookups in order and apply hit actions as documented (DESIGN §5 C13)."""
import prims
import values
from values import VAL, show
from runner import inst
from rules import sites
from rules.common import (tags_of, cls_of, witness_path, arg_role, obj_root, outcomes, outcome_edges, path_class, strip_view,
                          callback_kind, is_temp_object)
from rules.c15 import stack_entries
from graph import path_brief

EXPLANATION = ('The stacked cache is explored with the write-side / read-side dyn calls kept as abstract operations and the '
               'configuration (write side present?, checker present?) specialised. (R13.1) a read-side lookup/touch is reachable '
               'only after the write-side one or below "no write side"; the read-only stack is walked with a forward slice '
               'iterator and, without a checker, no further lookup follows a hit; (R13.2) the handle inside CacheHit::Primary is '
               'the write-side lookup\'s result, inside Secondary a read-side one; (R13.3) per (hit kind x judge action) cell the '
               'required/forbidden effects: Accept/Promote on a primary hit and Accept on a secondary hit insert nothing and '
               'create no named temp file; Promote on a secondary hit copies the hit into a temp file and inserts it with put '
               '(never set) and returns the hit; Replace populates with Some(old), inserts with set and returns a handle on the '
               'new file; a miss populates with None, inserts with put; (R13.4) without a write side the four write APIs reach '
               'only Err exits, one of kind Unsupported, with no insert, and a miss is served from an anonymous temp file; (R13.5) the '
               'promoted copy is identical: its source handle is at offset 0 on every path to the copy and its destination is a '
               'file no one else wrote (= R01.4/R01.5).')
FLOORS = {'R13.1': 5, 'R13.2': 2, 'R13.3': 9, 'R13.4': 5, 'R13.5': 2, 'R13.6': 2}


def entry(ctx, name):
    for n, k in stack_entries(ctx):
        if ctx.B[k]['name'] == name:
            return n, k
    from ctx import RoleError
    raise RoleError('stacked cache method %s not found' % name)


def ro_entry(ctx, name):
    ro = ctx.role('readonly_cache')
    for k, b in ctx.B.items():
        if b['public'] and b['name'] == name and b.get('impl_self_ty') is not None and ctx.T[b['impl_self_ty']].get('adt') == ro and not b.get('impl_trait'):
            return b['path'], k
    from ctx import RoleError
    raise RoleError('read-only cache method %s not found' % name)


def tc(q, trait, roles, ins):
    return q.edges(lambda ev: ev['k'] == 'traitcall' and ev['trait'] == trait and (roles is None or ins.get(ev['method'], ev['method']) in roles))


def r13_1(ctx):
    out = []
    wt, rt = ctx.role('write_trait'), ctx.role('read_trait')
    ins = ctx.insert_methods()
    f = ctx.stack_fields()
    for meth, role in (('get', 'get'), ('touch', 'touch')):
        name, k = entry(ctx, meth)
        q = ctx.explore(k, mode='layer')
        W = tc(q, wt, {role}, ins)
        R = q.edges(lambda ev: ev['k'] == 'traitcall' and ev['trait'] == rt)
        nows = q.edges(lambda ev: ev['k'] == 'refine' and ev['vname'] == 'None' and VAL[ev['val']][0] == 'sym' and VAL[ev['val']][1] == 'fld'
                       and VAL[ev['val']][3] == 'f%d' % f['write_side'])
        bad = q.must_precede(W + nows, R)
        out.append(inst('R13.1', name + '|write side first', bool(W) and bool(R) and not bad,
                        'every read-side %s lies after the write-side one (or below "no write side")' % meth if W and R and not bad else
                        'the read-only caches can be consulted before the write cache',
                        path=witness_path(q, bad[0], blocked=W + nows) if bad else []))
        # the read side is reached only after a write-side miss, or (with a checker) for comparison
        if meth == 'get':
            qn = ctx.explore(k, mode='layer', facts=ctx.spec_facts(k, checker='none', write_side='some'), tag='nochk-ws')
            Wn = tc(qn, wt, {'get'}, ins)
            Rn = qn.edges(lambda ev: ev['k'] == 'traitcall' and ev['trait'] == rt)
            hits = []
            for e in Wn:
                pay = values.SYM('vf', qn.E[e][2]['res'], 'v0', 'f0')
                hits += qn.edges(lambda ev: ev['k'] == 'refine' and ev['val'] == pay and ev['vname'] == 'Some')
            after = qn.never_after(hits, Rn)
            out.append(inst('R13.1', name + '|first hit wins (no checker)', bool(hits) and not after,
                            'after a write-side hit no read-side lookup is made' if hits and not after else
                            'a write-side hit is still followed by read-side lookups although no checker is configured'))
    # read-only stack order
    for meth in ('get', 'touch'):
        name, k = ro_entry(ctx, meth)
        q = ctx.explore(k, mode='layer', facts=ctx.spec_facts(k, checker='none'), tag='nochk')
        nexts = q.edges(lambda ev: ev['k'] == 'ext' and ev['path'].endswith('::next'))
        def forward_slice_iter(ev):
            # next() on a slice iterator (called directly, or through a generic `I: Iterator` in an iterator driver),
            # not reversed
            apps = [VAL[s][2] for s in values.subs(ev['args'][0]) if VAL[s][0] == 'sym' and VAL[s][1] == 'app']
            if any('rev' in a.lower() for a in apps):
                return False
            if ev['path'] == '<std::slice::Iter as std::iter::Iterator>::next':
                return True
            # through a generic driver the receiver is the slice/vector itself (`iter()` is transparent in the value model);
            # that it is the stack field is checked just below
            return ev['path'] == 'std::iter::Iterator::next'
        fwd = bool(nexts) and all(forward_slice_iter(q.E[e][2]) for e in nexts)
        stack_field = 'f%d' % ctx.readonly_fields()['stack']
        if not nexts:
            # the slice peeled from the front (`while let Some((first, rest)) = s.split_first()`) is the same walk
            nexts = q.edges(lambda ev: ev['k'] == 'ext' and ev['path'].rsplit('::', 1)[-1] in ('split_first', 'split_last', 'first', 'last', 'pop', 'split_at'))
            fwd = bool(nexts) and all(q.E[e][2]['path'].rsplit('::', 1)[-1] == 'split_first' for e in nexts)
        from_field = bool(nexts) and all(any(VAL[s][0] == 'sym' and VAL[s][1] == 'fld' and VAL[s][3] == stack_field for s in values.subs(q.E[e][2]['args'][0])) for e in nexts)
        out.append(inst('R13.1', name + '|registration order', fwd and from_field,
                        'the stack field is walked with a forward slice iterator' if fwd and from_field else
                        'the read-only stack is not walked front to back (%s)' % sorted({q.E[e][2]['path'] for e in nexts})))
        R = q.edges(lambda ev: ev['k'] == 'traitcall')
        hits = []
        for e in R:
            ev = q.E[e][2]
            if meth == 'get':
                pay = values.SYM('vf', ev['res'], 'v0', 'f0')
                hits += q.edges(lambda x: x['k'] == 'refine' and x['val'] == pay and x['vname'] == 'Some')
            else:
                pay = values.SYM('vf', ev['res'], 'v0', 'f0')
                hits += q.edges(lambda x: x['k'] == 'branch' and x['val'] == pay and x.get('eq') == 1)
        after = q.never_after(hits, R)
        out.append(inst('R13.1', name + '|first hit wins (no checker)', bool(hits) and not after,
                        'after the first hit no further cache of the stack is consulted' if hits and not after else
                        'the scan continues after a hit although no checker is configured'))
    return out


def judge_calls(ctx, q):
    return q.edges(lambda ev: ev['k'] == 'usercb' and callback_kind(ctx, q, ev) == 'judge')


def hit_kind(ev):
    a = ev['args'][0] if ev['args'] else None
    if a is not None and VAL[a][0] == 'agg':
        return int(VAL[a][2][1:]), VAL[a][3]
    return None, None


def r13_2(ctx):
    out = []
    wt, rt = ctx.role('write_trait'), ctx.role('read_trait')
    name, k = entry(ctx, 'get_or_update')
    q = ctx.explore(k, mode='layer')
    hit_t = [t for t in ctx.T if t.get('adt', '').endswith('CacheHit') and t.get('variants')]
    vnames = [v['name'] for v in hit_t[0]['variants']] if hit_t else ['Primary', 'Secondary']
    seen = {}
    for e in judge_calls(ctx, q):
        ev = q.E[e][2]
        kind, handle = hit_kind(ev)
        if kind is None:
            continue
        root = strip_view(values.mut_root(handle)) if handle is not None else None
        t = VAL[root] if root is not None else None
        src = t[2] if (t is not None and t[0] == 'sym' and t[1] == 'app') else '?'
        seen.setdefault(vnames[kind], set()).add(src)
    for vn, want in (('Primary', 'trait::%s::' % wt), ('Secondary', 'trait::%s::' % rt)):
        got = seen.get(vn, set())
        ok = bool(got) and all(s.startswith(want) for s in got)
        out.append(inst('R13.2', 'CacheHit::' + vn, ok, 'handle passed as %s comes from %s' % (vn, sorted(got)) if ok else
                        'a hit reported as %s comes from %s' % (vn, sorted(got))))
    return out


def r13_3(ctx):
    out = []
    wt, rt = ctx.role('write_trait'), ctx.role('read_trait')
    ins = ctx.insert_methods()
    act_t = [t for t in ctx.T if t.get('adt', '').endswith('CacheHitAction') and t.get('variants')]
    name, k = entry(ctx, 'get_or_update')
    q = ctx.explore(k, mode='layer', facts=ctx.spec_facts(k, checker='none', write_side='some'), tag='nochk-ws')
    J = judge_calls(ctx, q)
    oks = q.terminals(lambda ev: ev['k'] == 'ret' and ev.get('variant') == 'Ok')
    for kind, kname in ((0, 'Primary'), (1, 'Secondary')):
        js = [e for e in J if hit_kind(q.E[e][2])[0] == kind]
        for action in ('Accept', 'Promote', 'Replace'):
            E = []
            for e in js:
                res = q.E[e][2]['res']
                E += q.edges(lambda x: x['k'] == 'refine' and x['val'] == res and x['vname'] == action)
            cell = '%s x %s' % (kname, action)
            if not E:
                out.append(inst('R13.3', cell, False, 'configuration cell %s is not reachable in get_or_update' % cell))
                continue
            after = q.effects_after(E)
            inserts = sorted({ins.get(q.E[x][2]['method']) for x in after if q.E[x][2]['k'] == 'traitcall' and q.E[x][2]['trait'] == wt and ins.get(q.E[x][2]['method']) in ('set', 'put')})
            named = [x for x in after if cls_of(q.E[x][2]) in ('temp_create_named', 'temp_create_named_default')]
            pops = [x for x in after if q.E[x][2]['k'] == 'usercb' and callback_kind(ctx, q, q.E[x][2]) == 'populate']
            copies = [x for x in after if cls_of(q.E[x][2]) == 'content_write']
            r = q.reach_fwd([q.E[x][1] for x in E])
            rets = [t for t in oks if t in r]
            hit_root = strip_view(values.mut_root(hit_kind(q.E[js[0]][2])[1]))
            ret_roots = {strip_view(values.mut_root(q.g.term[t]['payload'][0])) for t in rets}
            why = []
            if (kname, action) in (('Primary', 'Accept'), ('Primary', 'Promote'), ('Secondary', 'Accept')):
                if inserts:
                    why.append('inserts into the write cache (%s)' % inserts)
                if named:
                    why.append('creates a named temporary file')
                if ret_roots != {hit_root}:
                    why.append('does not return the hit')
            elif (kname, action) == ('Secondary', 'Promote'):
                if inserts != ['put']:
                    why.append('promotion inserts with %s (expected put only)' % inserts)
                if not copies or not all(obj_root(arg_role(q.E[x][2], 'src')) == hit_root and is_temp_object(obj_root(arg_role(q.E[x][2], 'handle'))) for x in copies):
                    why.append('promotion does not copy the hit into a private temp file')
                if pops:
                    why.append('promotion calls populate')
                if ret_roots != {hit_root}:
                    why.append('does not return the hit')
            else:  # Replace
                if inserts != ['set']:
                    why.append('replacement inserts with %s (expected set only)' % inserts)
                if not pops or not all(VAL[q.E[x][2]['args'][1]][0] == 'agg' and VAL[q.E[x][2]['args'][1]][2] == 'v1' and
                                       strip_view(values.mut_root(VAL[q.E[x][2]['args'][1]][3])) == hit_root for x in pops):
                    why.append('populate is not called with Some(old hit)')
                if hit_root in ret_roots:
                    why.append('returns the old hit instead of the new file')
                if not all(VAL[rr][0] == 'sym' and VAL[rr][1] == 'app' and prims.classify(VAL[rr][2])[0] == 'open_ro' and
                           is_temp_object(obj_root(rr)) for rr in ret_roots):
                    why.append('the returned handle is not a read-only open of the new file')
            out.append(inst('R13.3', cell, not why, 'effects as documented (inserts %s, named temp files %d, exits %d)' % (inserts, len(named), len(rets)) if not why else
                            '%s: %s' % (cell, '; '.join(why)), path=witness_path(q, E[0]) if why else []))
    # miss: no judge call on the path
    r = q.reach_fwd([q.g.entry], blocked=J)
    miss_rets = [t for t in oks if t in r]
    reach_edges = [i for i, (a, b, ev) in enumerate(q.E) if ev is not None and a in r and i not in set(J)]
    pops = [x for x in reach_edges if q.E[x][2]['k'] == 'usercb' and callback_kind(ctx, q, q.E[x][2]) == 'populate']
    inserts = sorted({ins.get(q.E[x][2]['method']) for x in reach_edges if q.E[x][2]['k'] == 'traitcall' and q.E[x][2]['trait'] == wt and ins.get(q.E[x][2]['method']) in ('set', 'put')})
    why = []
    if inserts != ['put']:
        why.append('a miss inserts with %s (expected put only)' % inserts)
    if not pops or not all(VAL[q.E[x][2]['args'][1]][0] == 'agg' and VAL[q.E[x][2]['args'][1]][2] == 'v0' for x in pops):
        why.append('populate is not called with None on a miss')
    if not miss_rets:
        why.append('no Ok exit on the miss path')
    out.append(inst('R13.3', 'miss', not why, 'miss: populate(new, None), put, return' if not why else '; '.join(why)))
    # ensure == always Promote
    name2, k2 = entry(ctx, 'ensure')
    q2 = ctx.explore(k2, mode='layer', facts=ctx.spec_facts(k2, checker='none', write_side='some'), tag='nochk-ws')
    sets = tc(q2, wt, {'set'}, ins)
    reach = set(q2.edges_reachable())
    bad = [e for e in sets if e in reach]
    out.append(inst('R13.3', 'ensure never replaces', not bad, 'ensure never reaches a write-side set (its judge always promotes)' if not bad else
                    'ensure can overwrite an existing entry'))
    # promote without a write side returns the hit and creates nothing
    q3 = ctx.explore(k, mode='layer', facts=ctx.spec_facts(k, checker='none', write_side='none'), tag='nochk-nows')
    J3 = judge_calls(ctx, q3)
    E3 = []
    for e in J3:
        if hit_kind(q3.E[e][2])[0] == 1:
            res = q3.E[e][2]['res']
            E3 += q3.edges(lambda x: x['k'] == 'refine' and x['val'] == res and x['vname'] == 'Promote')
    after = q3.effects_after(E3)
    named = [x for x in after if cls_of(q3.E[x][2]) in ('temp_create_named', 'temp_create_named_default', 'content_write')]
    pops3 = [x for x in after if q3.E[x][2]['k'] == 'usercb' and callback_kind(ctx, q3, q3.E[x][2]) == 'populate']
    oks3 = q3.terminals(lambda ev: ev['k'] == 'ret' and ev.get('variant') == 'Ok')
    r3 = q3.reach_fwd([q3.E[x][1] for x in E3]) if E3 else set()
    hit3 = {strip_view(values.mut_root(hit_kind(q3.E[e][2])[1])) for e in J3 if hit_kind(q3.E[e][2])[0] == 1}
    rets3 = {strip_view(values.mut_root(q3.g.term[t]['payload'][0])) for t in oks3 if t in r3}
    ok3 = bool(E3) and not named and not pops3 and rets3 == hit3
    out.append(inst('R13.3', 'Secondary x Promote x no write side', ok3,
                    'without a write side promotion returns the hit, calls no populate and creates nothing' if ok3 else
                    'promotion without a write side %s' % ('regenerates the value with populate instead of returning the hit' if pops3 or rets3 != hit3
                                                           else 'still creates or copies files')))
    return out


def r13_4(ctx):
    out = []
    wt = ctx.role('write_trait')
    ek = [t for t in ctx.T if t.get('adt') == 'std::io::ErrorKind' and t.get('variants')]
    uns = [i for i, v in enumerate(ek[0]['variants']) if v['name'] == 'Unsupported'][0] if ek else None
    for meth in ('set', 'put', 'set_temp_file', 'put_temp_file'):
        name, k = entry(ctx, meth)
        q = ctx.explore(k, mode='layer', facts=ctx.spec_facts(k, write_side='none'), tag='nows')
        terms = q.terminals(lambda ev: ev['k'] == 'ret')
        oks = [t for t in terms if q.g.term[t].get('variant') == 'Ok']
        calls = [e for e in q.edges_reachable() if q.E[e][2]['k'] == 'traitcall']
        kinds = set()
        for t in terms:
            p = q.g.term[t].get('payload', [None])[0]
            tp = VAL[p] if p is not None else None
            if tp is not None and tp[0] == 'sym' and tp[1] == 'ioerr' and VAL[tp[2]][0] == 'agg':
                kinds.add(int(VAL[tp[2]][2][1:]))
        ok = not oks and not calls and uns in kinds
        out.append(inst('R13.4', name, ok, 'without a write side: only Err exits, one of kind Unsupported, no cache operation' if ok else
                        'without a write side %s %s' % (meth, 'can succeed' if oks else 'does not fail with Unsupported' if uns not in kinds else 'still performs cache operations')))
    name, k = entry(ctx, 'get_or_update')
    q = ctx.explore(k, mode='layer', facts=ctx.spec_facts(k, checker='none', write_side='none'), tag='nochk-nows')
    J = judge_calls(ctx, q)
    r = q.reach_fwd([q.g.entry], blocked=J)
    oks = [t for t in q.terminals(lambda ev: ev['k'] == 'ret' and ev.get('variant') == 'Ok') if t in r]
    roots = {obj_root(q.g.term[t]['payload'][0]) for t in oks}
    anon = bool(roots) and all(VAL[x][0] == 'sym' and VAL[x][1] == 'app' and prims.classify(VAL[x][2])[0] == 'temp_create_anon' for x in roots)
    named = [e for e in q.edges_reachable() if cls_of(q.E[e][2]) in ('temp_create_named', 'temp_create_named_default')]
    out.append(inst('R13.4', name + '|miss without write side', anon and not named,
                    'a miss without a write side is served from an anonymous temp file; no named file is created' if anon and not named else
                    'a miss without a write side is not served from a throw-away anonymous file'))
    return out


def r13_5(ctx):
    """Promote leaves an *identical* copy: the hit is copied from its first byte (the copy source is rewound on every
    path to the copy; shared with R01.4) and into a file nothing else has written (shared with R01.5)."""
    from rules import c01
    out = []
    for i in c01.r01_4(ctx) + c01.r01_5(ctx):
        out.append(inst('R13.5', i['key'].split('|', 1)[1], i['ok'], i['detail'], path=i.get('path') or []))
    return out


def r13_6(ctx):
    """"a miss stores the newly populated value and returns it": the handle returned on the miss path was opened on the
    private file before it was handed to the write cache; the re-read after put may replace it but its miss or failure
    never turns the call into an error (= row #12 of R05.t)."""
    from rules import c05
    return [inst('R13.6', i['key'].split('|', 1)[1], i['ok'], i['detail'], path=i.get('path') or []) for i in c05.r05_t(ctx) if '#12' in i['key']]


def run(ctx):
    from runner import collect
    return collect(ctx, r13_1, r13_2, r13_3, r13_4, r13_5, r13_6)
