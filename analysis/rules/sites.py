"""Shared error-discipline analysis for C05 / C18: what happens on the Err outcome of every fallible event."""
import prims
import values
from values import VAL, show
from rules.common import (tags_of, cls_of, witness_path, arg_role, obj_root, outcomes, outcome_edges, path_class, callback_kind)
from rules.c15 import stack_entries


def lower_entries(ctx):
    m = ctx.cachedir_methods()
    out = [('cachedir.%s' % r, m[r], 'full') for r in ('get', 'set', 'put', 'touch', 'ensure_temp')]
    for k in m['maintain']:
        if ctx.B[k]['arg_count'] == 1:
            out.append(('cachedir.' + ('temp_cleanup' if 'meta_times' not in ctx.cg.effects(k) else 'maintain'), k, 'full'))
    # the public mechanism layer is an entry point in its own right
    for p in ('raw_cache::prune', 'raw_cache::insert_or_update', 'raw_cache::insert_or_touch', 'raw_cache::touch'):
        out.append((p, ctx.key_of(p), 'full'))
    for p in ('sharded::Cache::get', 'sharded::Cache::set', 'sharded::Cache::put', 'sharded::Cache::touch', 'sharded::Cache::temp_dir'):
        out.append((p, ctx.key_of(p), 'full'))
    return out


def stack_level_entries(ctx):
    out = [(n, k, 'layer') for n, k in stack_entries(ctx)]
    ro = ctx.role('readonly_cache')
    for k, b in ctx.B.items():
        if b['public'] and b.get('impl_self_ty') is not None and ctx.T[b['impl_self_ty']].get('adt') == ro \
                and not b.get('impl_trait') and (ctx.cg.effects(k) & prims.FS_CLASSES):
            out.append((b['path'], k, 'layer'))
    return out


def fallible_events(ctx, q):
    """edges whose event produces an io::Result-like value the code can inspect."""
    out = []
    for i, (a, b, ev) in enumerate(q.E):
        if ev is None or ev.get('res') is None:
            continue
        k = ev['k']
        if k == 'ext':
            c = cls_of(ev)
            if c in prims.FS_CLASSES and 'Result<' in ev.get('dest_ty', ''):
                out.append(i)
        elif k == 'traitcall':
            out.append(i)
        elif k == 'usercb':
            if 'Result<' in ev.get('dest_ty', ''):
                out.append(i)
        elif k == 'pure_local' and 'Result<' in ev.get('dest_ty', '') and 'std::io::Error' in ev.get('dest_ty', ''):
            out.append(i)
    return out


def describe(ctx, q, ev):
    """Stable, line-free description of a call site: primitive + operand class."""
    if ev['k'] == 'ext':
        r = prims.classify(ev['path'])[1]
        v = None
        for role in ('path', 'dst', 'handle', 'dir'):
            if role in r:
                v = arg_role(ev, role)
                break
        pc = path_class(ctx, q, v) if v is not None else '-'
        return '%s(%s)' % (ev['path'], pc)
    if ev['k'] == 'traitcall':
        return 'write/read-side %s' % ev['method']
    if ev['k'] == 'usercb':
        return 'callback:%s' % callback_kind(ctx, q, ev)
    return ev['path']


def result_value(ev):
    """The io::Result this event yields (for a directory iterator: the item inside the Option)."""
    if ev['k'] == 'ext' and cls_of(ev) == 'list_next':
        return values.SYM('vf', ev['res'], 'v1', 'f0')
    return ev['res']


def err_value(ev):
    return values.SYM('vf', result_value(ev), 'v1', 'f0')


def refines(q, val, vname):
    return q.edges(lambda x: x['k'] == 'refine' and x['val'] == val and x['vname'] == vname)


def benign_edges(ctx, q, ev):
    """branch edges that classify *this* event's error as benign absence (classifier true) or, for an
    exclusive publish, as AlreadyExists."""
    cls_path = 'local::' + ctx.B[ctx.role('absence_classifier')]['path']
    e = err_value(ev)

    def pred(x):
        if x['k'] != 'branch' or x.get('eq') != 1:
            return False
        t = VAL[x['val']]
        if t[0] != 'sym':
            return False
        if t[1] == 'app' and t[2] == cls_path:
            return e in values.subs(x['val'])
        if t[1] == 'cmp' and t[2] == 'Eq' and e in values.subs(x['val']):
            return any(VAL[s][0] == 'agg' and VAL[s][1] == 'std::io::ErrorKind' for s in values.subs(x['val']))
        return False
    return q.edges(pred)


def analyse(ctx, entries):
    """-> list of site records (one per entry point x call-site description)."""
    if hasattr(ctx, '_site_recs') and ctx._site_recs[0] == tuple(e[0] for e in entries):
        return ctx._site_recs[1]
    recs = []
    for name, key, mode in entries:
        q = ctx.explore(key, mode=mode)
        oks = set(q.terminals(lambda ev: ev['k'] == 'ret' and ev.get('variant') != 'Err'))
        errs = q.terminals(lambda ev: ev['k'] == 'ret' and ev.get('variant') == 'Err')
        panics = q.terminals(lambda ev: ev['k'] == 'panic')
        mkdirs = q.prim_edges('ns_create_dir')
        seen = {}
        by_desc = {}
        fall = fallible_events(ctx, q)
        for e in fall:
            by_desc.setdefault(describe(ctx, q, q.E[e][2]), []).append(e)
        for d, edges in by_desc.items():
            rec = {'entry': name, 'site': d, 'q': q, 'edges': edges, 'inspected': False, 'bool_only': True, 'escapes': [], 'benign': False,
                   'benign_bad': [], 'panic_on_err': [], 'dropped': [], 'spans': sorted({q.E[e][2]['site'][2] for e in edges}),
                   'surfaces': [], 'escapes_without_mkdir': [], 'cls': cls_of(q.E[edges[0]][2]) if q.E[edges[0]][2]['k'] == 'ext' else q.E[edges[0]][2]['k']}
            recs.append(rec)
            for e in edges:
                ev = q.E[e][2]
                rv = result_value(ev)
                ErrE = refines(q, rv, 'Err')
                OkE = refines(q, rv, 'Ok')
                ben = benign_edges(ctx, q, ev)
                # "used as a boolean": the only inspection of the result is is_ok()/is_err()
                tested = q.edges(lambda x: x['k'] == 'tested' and x.get('val') == rv)
                after_err = {q.E[x][1] for x in ErrE}
                if not tested or not all(q.E[x][0] in after_err for x in tested) or len(tested) < len(ErrE):
                    rec['bool_only'] = False
                if ErrE or OkE:
                    rec['inspected'] = True
                else:
                    r = q.reach_fwd([q.E[e][1]], blocked=edges)
                    if r & oks:
                        rec['dropped'].append(e)
                    continue
                ev_err = err_value(ev)
                # Err exits that carry this very error (re-executions of the site are cut: they are other instances)
                rE = q.reach_fwd([q.E[x][1] for x in ErrE], blocked=edges) if ErrE else set()
                carried = [t for t in errs if t in rE and (ev_err in values.subs(q.g.term[t]['val']) or q.g.term[t]['val'] == rv)]
                if carried:
                    rec['surfaces'].append((e, carried[0]))
                if ben:
                    rec['benign'] = True
                    rb = q.reach_fwd([q.E[x][1] for x in ben], blocked=edges)
                    bad = [t for t in errs if t in rb and ev_err in values.subs(q.g.term[t]['val'])]
                    if bad or not (q.reach_fwd([q.E[x][1] for x in ben]) & oks):
                        rec['benign_bad'].append((e, bad[0] if bad else None))
                esc = q.must_follow(ErrE, set(ben) | set(edges), oks)
                for x in esc:
                    rec['escapes'].append((e, x))
                esc2 = q.must_follow(ErrE, set(ben) | set(edges) | set(mkdirs), oks)
                for x in esc2:
                    rec['escapes_without_mkdir'].append((e, x))
                rO = q.reach_fwd([q.E[x][1] for x in OkE], blocked=edges) if OkE else set()
                ok_sites = {q.g.term[p]['site'][:2] for p in panics if p in rO}
                for p in panics:
                    if p in rE and q.g.term[p]['site'][:2] not in ok_sites:
                        rec['panic_on_err'].append((e, p))
    ctx._site_recs = (tuple(e[0] for e in entries), recs)
    return recs
