"""Shared error-discipline analysis for C05 / C18: what happens on the Err outcome of every fallible event."""
import prims
import values
from values import VAL, show
from rules.common import (tags_of, cls_of, witness_path, arg_role, obj_root, outcomes, outcome_edges, path_class, callback_kind)
from rules.c15 import stack_entries


def lower_entries(ctx):
    m = ctx.cachedir_methods()
    out = [('cachedir.%s' % r, m[r], 'full') for r in ('get', 'set', 'put', 'touch', 'ensure_temp')]
    for k in m['maintain']:
        if ctx.B[k]['arg_count'] == 1:
            out.append(('cachedir.' + ('temp_cleanup' if 'meta_times' not in ctx.cg.effects(k) else 'maintain'), k, 'full'))
    # the public mechanism layer is an entry point in its own right
    for p in ('raw_cache::prune', 'raw_cache::insert_or_update', 'raw_cache::insert_or_touch', 'raw_cache::touch'):
        out.append((p, ctx.helper(p), 'full'))
    for p in ('sharded::Cache::get', 'sharded::Cache::set', 'sharded::Cache::put', 'sharded::Cache::touch', 'sharded::Cache::temp_dir'):
        out.append((p, ctx.key_of(p), 'full'))
    return out


def stack_level_entries(ctx):
    out = [(n, k, 'layer') for n, k in stack_entries(ctx)]
    ro = ctx.role('readonly_cache')
    for k, b in ctx.B.items():
        if b['public'] and b.get('impl_self_ty') is not None and ctx.T[b['impl_self_ty']].get('adt') == ro \
                and not b.get('impl_trait') and (ctx.cg.effects(k) & prims.FS_CLASSES):
            out.append((b['path'], k, 'layer'))
    return out


def fallible_events(ctx, q):
    """edges whose event produces an io::Result-like value the code can inspect."""
    out = []
    for i, (a, b, ev) in enumerate(q.E):
        if ev is None or ev.get('res') is None:
            continue
        k = ev['k']
        if k == 'ext':
            c = cls_of(ev)
            if c in prims.FS_CLASSES and 'Result<' in ev.get('dest_ty', ''):
                out.append(i)
        elif k == 'traitcall':
            out.append(i)
        elif k == 'usercb':
            if 'Result<' in ev.get('dest_ty', ''):
                out.append(i)
        elif k == 'pure_local' and 'Result<' in ev.get('dest_ty', '') and 'std::io::Error' in ev.get('dest_ty', ''):
            out.append(i)
    return out


def describe(ctx, q, ev):
    """Stable, line-free description of a call site: primitive + operand class."""
    if ev['k'] == 'ext':
        r = prims.classify(ev['path'])[1]
        v = None
        for role in ('path', 'dst', 'handle', 'dir'):
            if role in r:
                v = arg_role(ev, role)
                break
        pc = path_class(ctx, q, v) if v is not None else '-'
        # error discipline does not depend on how the key-named leaf was obtained (that is C16's business)
        if pc.startswith('Base/Leaf?'):
            pc = 'Base/Key'
        elif pc.startswith('Handle(Base/Leaf?'):
            pc = 'Handle(Base/Key)'
        return '%s(%s)' % (ev['path'], pc)
    if ev['k'] == 'traitcall':
        return 'write/read-side %s' % ev['method']
    if ev['k'] == 'usercb':
        return 'callback:%s' % callback_kind(ctx, q, ev)
    return ev['path']


def result_value(ev):
    """The io::Result this event yields (for a directory iterator: the item inside the Option)."""
    if ev['k'] == 'ext' and cls_of(ev) == 'list_next':
        return values.SYM('vf', ev['res'], 'v1', 'f0')
    return ev['res']


def err_value(ev):
    return values.SYM('vf', result_value(ev), 'v1', 'f0')


def _index(q):
    idx = getattr(q, '_site_index', None)
    if idx is None:
        ref = {}
        tested = {}
        for i, (a, b, ev) in enumerate(q.E):
            if ev is None:
                continue
            if ev['k'] == 'refine':
                ref.setdefault((ev['val'], ev['vname']), []).append(i)
            elif ev['k'] == 'tested':
                tested.setdefault(ev.get('val'), []).append(i)
        idx = q._site_index = (ref, tested)
    return idx


def refines(q, val, vname):
    return _index(q)[0].get((val, vname), [])


def _benign_index(ctx, q):
    """err value -> branch edges (eq == 1) that classify it as benign absence / AlreadyExists-like kind test."""
    idx = getattr(q, '_benign_index', None)
    if idx is not None:
        return idx
    cls_path = 'local::' + ctx.B[ctx.role('absence_classifier')]['path']
    idx = {}
    for i, (a, b, x) in enumerate(q.E):
        if x is None or x['k'] != 'branch' or x.get('eq') != 1:
            continue
        t = VAL[x['val']]
        if t[0] != 'sym':
            continue
        if t[1] == 'app' and t[2] == cls_path:
            pass
        elif t[1] == 'cmp' and t[2] == 'Eq' and any(VAL[s_][0] == 'agg' and VAL[s_][1] == 'std::io::ErrorKind' for s_ in values.subs(x['val'])):
            pass
        else:
            continue
        for s_ in values.subs(x['val']):
            ts = VAL[s_]
            if ts[0] == 'sym' and ts[1] == 'vf' and ts[3] == 'v1' and ts[4] == 'f0':
                idx.setdefault(s_, []).append(i)
    q._benign_index = idx
    return idx


def benign_edges(ctx, q, ev):
    """branch edges that classify *this* event's error as benign absence (classifier true) or, for an
    exclusive publish, as AlreadyExists."""
    return _benign_index(ctx, q).get(err_value(ev), [])


def analyse(ctx, entries):
    """-> list of site records (one per entry point x call-site description)."""
    cache = getattr(ctx, '_site_recs', None)
    if cache is None:
        cache = ctx._site_recs = {}
    ck = tuple(e[0] for e in entries)
    if ck in cache:
        return cache[ck]
    recs = []
    for ent in entries:
        name, key, mode = ent[:3]
        kwargs = ent[3] if len(ent) > 3 else {}
        q = ctx.explore(key, mode=mode, **kwargs)
        oks = set(q.terminals(lambda ev: ev['k'] == 'ret' and ev.get('variant') != 'Err'))
        errs = q.terminals(lambda ev: ev['k'] == 'ret' and ev.get('variant') == 'Err')
        panics = q.terminals(lambda ev: ev['k'] == 'panic')
        mkdirs = q.prim_edges('ns_create_dir')
        by_desc = {}
        for e in fallible_events(ctx, q):
            by_desc.setdefault(describe(ctx, q, q.E[e][2]), []).append(e)
        for d, edges in by_desc.items():
            ev0 = q.E[edges[0]][2]
            rec = {'entry': name, 'site': d, 'q': q, 'edges': edges, 'inspected': False, 'bool_only': True, 'escapes': [], 'benign': False,
                   'benign_bad': [], 'panic_on_err': [], 'dropped': [], 'spans': sorted({q.E[e][2]['site'][2] for e in edges}),
                   'surfaces': [], 'escapes_without_mkdir': [], 'cls': cls_of(ev0) if ev0['k'] == 'ext' else ev0['k']}
            recs.append(rec)
            ErrE, OkE, ben, errvals, rvs = [], [], [], set(), set()
            uninspected = []
            for e in edges:
                ev = q.E[e][2]
                rv = result_value(ev)
                ee = refines(q, rv, 'Err')
                oe = refines(q, rv, 'Ok')
                tested = _index(q)[1].get(rv, [])
                after_err = {q.E[x][1] for x in ee}
                if not tested or not all(q.E[x][0] in after_err for x in tested) or len(tested) < len(ee):
                    rec['bool_only'] = False
                if not ee and not oe:
                    uninspected.append(e)
                    continue
                rec['inspected'] = True
                ErrE += ee
                OkE += oe
                ben += benign_edges(ctx, q, ev)
                errvals.add(err_value(ev))
                rvs.add(rv)
            ErrE, OkE, ben = sorted(set(ErrE)), sorted(set(OkE)), sorted(set(ben))
            if uninspected:
                can = q.reach_bwd(list(oks), blocked=edges)
                rec['dropped'] = [e for e in uninspected if q.E[e][1] in can]
            if not ErrE and not OkE:
                continue

            def carries(t):
                v = q.g.term[t]['val']
                return v in rvs or bool(errvals & values.subs(v))
            # Err exits that carry this very error (re-executions of the site are cut: they are other instances)
            rE = q.reach_fwd([q.E[x][1] for x in ErrE], blocked=edges) if ErrE else set()
            carried = [t for t in errs if t in rE and carries(t)]
            if carried:
                rec['surfaces'].append((edges[0], carried[0]))
            if ben:
                rec['benign'] = True
                rb = q.reach_fwd([q.E[x][1] for x in ben], blocked=edges)
                bad = [t for t in errs if t in rb and bool(errvals & values.subs(q.g.term[t]['val']))]
                if bad or not (q.reach_fwd([q.E[x][1] for x in ben]) & oks):
                    rec['benign_bad'].append((edges[0], bad[0] if bad else None))
            for x in q.must_follow(ErrE, set(ben) | set(edges), oks):
                rec['escapes'].append((edges[0], x))
            for x in q.must_follow(ErrE, set(ben) | set(edges) | set(mkdirs), oks):
                rec['escapes_without_mkdir'].append((edges[0], x))
            if panics:
                rO = q.reach_fwd([q.E[x][1] for x in OkE], blocked=edges) if OkE else set()
                ok_sites = {q.g.term[p]['site'][:2] for p in panics if p in rO}
                for p in panics:
                    if p in rE and q.g.term[p]['site'][:2] not in ok_sites:
                        rec['panic_on_err'].append((edges[0], p))
    cache[ck] = recs
    return recs


def e2e_entries(ctx):
    """stacked entry points, fully inlined, per write-side implementor and checker setting (thorough tier)."""
    from rules import e2e
    wt, rt = ctx.role('write_trait'), ctx.role('read_trait')
    out = []
    for name, k, _mode in stack_level_entries(ctx):
        if ctx.T[ctx.B[k]['impl_self_ty']].get('adt') != ctx.role('stack_cache'):
            continue
        for (w, r, chk) in e2e.configs(ctx):
            out.append(('%s|write=%s|checker=%s' % (name, w, chk), k, 'full',
                        {'facts': ctx.spec_facts(k, checker=chk, write_side='some'), 'tag': 'e2e-sites-%s-%s' % (w, chk),
                         'dyn_force': {wt: w, rt: r}, 'max_nodes': 2500000}))
    return out
