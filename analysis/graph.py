"""Queries over the explored state graph (engine.Graph)."""
from collections import deque

import prims
from values import VAL, subs, show


class GQ:
    def __init__(self, g):
        self.g = g
        self.E = g.edges
        self.succ = g.succ
        self.pred = g.pred

    # -------------------------------------------------------------- selection

    def edges(self, pred):
        return [i for i, (a, b, ev) in enumerate(self.E) if ev is not None and pred(ev)]

    def prim_edges(self, cls, pred=None):
        if isinstance(cls, str):
            cls = {cls}
        out = []
        for i, (a, b, ev) in enumerate(self.E):
            if ev is None or ev['k'] != 'ext':
                continue
            c = prims.classify_event(ev)[0]
            if c in cls and (pred is None or pred(ev)):
                out.append(i)
        return out

    def terminals(self, pred=None):
        return [n for n, ev in self.g.term.items() if pred is None or pred(ev)]

    # ----------------------------------------------------------- reachability

    def reach_fwd(self, starts, blocked=()):
        blocked = set(blocked)
        seen = set(starts)
        work = deque(starts)
        while work:
            n = work.popleft()
            for ei in self.succ.get(n, ()):
                if ei in blocked:
                    continue
                b = self.E[ei][1]
                if b not in seen:
                    seen.add(b)
                    work.append(b)
        return seen

    def reach_bwd(self, targets, blocked=()):
        blocked = set(blocked)
        seen = set(targets)
        work = deque(targets)
        while work:
            n = work.popleft()
            for ei in self.pred.get(n, ()):
                if ei in blocked:
                    continue
                a = self.E[ei][0]
                if a not in seen:
                    seen.add(a)
                    work.append(a)
        return seen

    def witness(self, target_node, blocked=(), start=None, maxlen=60):
        """Shortest event path entry -> target_node avoiding blocked edges."""
        blocked = set(blocked)
        start = self.g.entry if start is None else start
        par = {start: None}
        work = deque([start])
        while work:
            n = work.popleft()
            if n == target_node:
                break
            for ei in self.succ.get(n, ()):
                if ei in blocked:
                    continue
                b = self.E[ei][1]
                if b not in par:
                    par[b] = ei
                    work.append(b)
        if target_node not in par:
            return None
        evs = []
        n = target_node
        while par[n] is not None:
            ei = par[n]
            a, b, ev = self.E[ei]
            if ev is not None:
                evs.append(ev)
            n = a
        evs.reverse()
        return evs

    # ------------------------------------------------------------ path rules

    def must_precede(self, A, B):
        """Every entry->B path crosses an A edge.  Returns violating B edges."""
        r = self.reach_fwd([self.g.entry], blocked=A)
        return [b for b in B if self.E[b][0] in r and b not in set(A)]

    def never_after(self, A, B, blocked=()):
        """No B edge is reachable after an A edge.  Returns (a, b) pairs (one b per offending a)."""
        Bs = list(B)
        if not Bs or not A:
            return []
        # one backward search from the sources of B
        can = self.reach_bwd([self.E[b][0] for b in Bs], blocked=blocked)
        bad = [a for a in A if self.E[a][1] in can]
        out = []
        for a in bad[:3]:
            r = self.reach_fwd([self.E[a][1]], blocked=blocked)
            hit = [b for b in Bs if self.E[b][0] in r]
            out.append((a, hit[0] if hit else Bs[0]))
        for a in bad[3:]:
            out.append((a, Bs[0]))
        return out

    def must_follow(self, A, B, until_nodes):
        """After every A edge, every path to `until_nodes` crosses a B edge.
        Returns the A edges from which an until node is reachable avoiding B."""
        U = list(until_nodes)
        if not U or not A:
            return []
        can = self.reach_bwd(U, blocked=B)
        Bs = set(B)
        return [a for a in A if self.E[a][1] in can and a not in Bs]

    def effects_after(self, A, blocked=()):
        """Set of edge indices reachable after any A edge."""
        starts = [self.E[a][1] for a in A]
        r = self.reach_fwd(starts, blocked=blocked)
        return [i for i, (a, b, ev) in enumerate(self.E) if ev is not None and a in r]

    def edges_reachable(self, blocked=()):
        r = self.reach_fwd([self.g.entry], blocked=blocked)
        bl = set(blocked)
        return [i for i, (a, b, ev) in enumerate(self.E) if ev is not None and a in r and i not in bl]

    # ---------------------------------------------------------------- counting

    def sccs(self, blocked=()):
        blocked = set(blocked)
        n = self.g.n
        index = [None] * n
        low = [0] * n
        on = [False] * n
        stack = []
        comp = [None] * n
        ncomp = 0
        counter = 0
        for root in range(n):
            if index[root] is not None:
                continue
            work = [(root, 0)]
            while work:
                v, i = work[-1]
                if i == 0:
                    index[v] = low[v] = counter
                    counter += 1
                    stack.append(v)
                    on[v] = True
                es = self.succ.get(v, ())
                if i < len(es):
                    work[-1] = (v, i + 1)
                    if blocked and es[i] in blocked:
                        continue
                    w = self.E[es[i]][1]
                    if index[w] is None:
                        work.append((w, 0))
                    elif on[w]:
                        low[v] = min(low[v], index[w])
                else:
                    work.pop()
                    if work:
                        u = work[-1][0]
                        low[u] = min(low[u], low[v])
                    if low[v] == index[v]:
                        while True:
                            w = stack.pop()
                            on[w] = False
                            comp[w] = ncomp
                            if w == v:
                                break
                        ncomp += 1
        return comp, ncomp

    def max_count(self, Eset, start=None, blocked=()):
        """Max number of Eset edges on any path from entry; float('inf') if an
        Eset edge lies on a cycle reachable from entry."""
        Eset = set(Eset)
        blocked = set(blocked)
        comp, ncomp = self.sccs()
        start = self.g.entry if start is None else start
        reach = self.reach_fwd([start], blocked=blocked)
        for e in Eset:
            a, b, _ = self.E[e]
            if a in reach and comp[a] == comp[b]:
                return float('inf')
        # longest path over the condensation (components are numbered in reverse topological order)
        best = {}
        order = sorted(reach, key=lambda v: comp[v])  # sinks first
        cbest = {}
        for v in order:
            c = comp[v]
            m = cbest.get(c, 0)
            for ei in self.succ.get(v, ()):
                if ei in blocked:
                    continue
                w = self.E[ei][1]
                cw = comp[w]
                if cw == c:
                    continue
                m = max(m, cbest.get(cw, 0) + (1 if ei in Eset else 0))
            cbest[c] = max(cbest.get(c, 0), m)
        # components processed sinks-first guarantees successors are final
        return cbest.get(comp[start], 0)

    def cycles_with(self, Eset):
        """Components (as sets of nodes) that contain at least one Eset edge."""
        comp, ncomp = self.sccs()
        out = {}
        for e in Eset:
            a, b, _ = self.E[e]
            if comp[a] == comp[b]:
                out.setdefault(comp[a], []).append(e)
        return out, comp


# ------------------------------------------------------------------ term helpers

def mentions(v, pred):
    if v is None:
        return False
    for s in subs(v):
        if pred(VAL[s], s):
            return True
    return False


def find_subterms(v, pred):
    if v is None:
        return []
    return [s for s in subs(v) if pred(VAL[s], s)]


def is_app(t, path=None, prefix=None):
    if t[0] != 'sym' or t[1] != 'app':
        return False
    if path is not None:
        return t[2] == path
    if prefix is not None:
        return t[2].startswith(prefix)
    return True


def ev_brief(ev, depth=3):
    k = ev['k']
    loc = ev.get('site', ('', 0, ''))[2]
    if k in ('ext', 'traitcall', 'pure_local'):
        return '%s %s(%s)' % (loc, ev['path'], ', '.join(show(a, depth) for a in ev['args']))
    if k == 'usercb':
        return '%s callback %s(%s)' % (loc, show(ev['callee'], 2), ', '.join(show(a, depth) for a in ev['args']))
    if k == 'refine':
        return '%s [%s is %s]' % (loc, show(ev['val'], depth), ev['vname'])
    if k == 'branch':
        return '%s [%s %s]' % (loc, show(ev['val'], depth), ('== %s' % ev['eq']) if 'eq' in ev else ('not in %s' % (ev['ne'],)))
    if k == 'ret':
        return '%s return %s %s' % (loc, ev.get('variant', ''), ev.get('variant2', ''))
    if k == 'panic':
        return '%s PANIC %s %s' % (loc, ev.get('why'), ev.get('msg', ''))
    if k in ('enter', 'leave'):
        return '%s %s %s' % (loc, k, ev['key'])
    if k == 'dyn':
        return '%s [dyn %s is %s]' % (loc, ev['trait'], ev['impl'])
    if k == 'drop':
        return '%s drop %s' % (loc, show(ev['val'], 2))
    return '%s %s' % (loc, k)


def path_brief(evs, keep=lambda ev: ev['k'] not in ('enter', 'leave', 'drop', 'pure_local')):
    return [ev_brief(e) for e in evs if keep(e)]
