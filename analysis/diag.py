import json,sys,collections
sys.path.insert(0,'/verif/analysis')
import engine, values
from engine import Interp
from models import Models
facts=json.load(open(sys.argv[1]))
key=sys.argv[2]
I=Interp(facts,Models(),max_nodes=int(sys.argv[3]) if len(sys.argv)>3 else 400000)
from callgraph import CallGraph
I.opaque=CallGraph(facts).pure_bodies()
try:
    I.run(key)
except engine.EngineLimit as e:
    print(e)
c=collections.Counter()
for k in I.seen:
    frames=k[0]
    c[(frames[-1][0],frames[-1][1],len(frames))]+=1
print('states',len(I.seen))
for x,n in c.most_common(12): print(n,x)
byfn=collections.Counter()
for k in I.seen: byfn[k[0][-1][0]]+=1
print(byfn.most_common(12))
top=c.most_common(1)[0][0] if len(sys.argv)<5 else eval(sys.argv[4])
sts=[k for k in I.seen if (k[0][-1][0],k[0][-1][1],len(k[0]))==top]
print('TOP',top,len(sts))
loc=collections.defaultdict(set)
for s in sts:
    for fi,f in enumerate(s[0]):
        for l,v in f[2]: loc[(fi,f[0],l)].add(v)
for k,v in loc.items():
    if len(v)>1: print(' local',k,len(v),[values.show(x,3)[:90] for x in list(v)[:3]])
fc=collections.Counter()
for s in sts:
    for k,v in s[2]: fc[(k,v)]+=1
for (k,v),n in fc.most_common(30):
    if n<len(sts): print(' fact',n,k, values.show(k[1],3)[:100] if isinstance(k[1],int) else '', v)
hc=collections.defaultdict(set)
for s in sts:
    for k,v in s[1]: hc[k].add(v)
for k,v in hc.items():
    if len(v)>1: print(' heap',k,len(v))
