"""Path-sensitive abstract interpreter over kfacts MIR.

Explores, for one entry point, the exploded interprocedural graph: nodes are
abstract states at basic-block boundaries (call stack of inlined local frames,
locals holding hash-consed terms, a small symbolic heap, the refinement facts
gathered along the path); edges carry events (external calls with their
resolved argument terms, user-callback invocations, refinements of unknown
enum values into a variant, drops, panics, returns).  States are memoised, so
loops and re-converging branches terminate; the term domain is depth-bounded
(values.mk widens).  Rules (analysis/rules) are queries over this graph.

No code of the analysed crate is executed and no solver is involved: unknown
discriminants fork, everything else is term construction.
"""
import sys
from collections import deque

from values import (VAL, INT, STR, ZST, FN, AGG, SITE, SYM, PTR, mk, tag, is_int, int_of, is_sym,
                    is_agg, is_ptr, agg_variant, agg_fields, agg_kind, subs, leaves, show)


class NeedFork(Exception):
    def __init__(self, key, options):
        # options: list of (fact_value, label dict)
        self.key = key
        self.options = options


class Infeasible(Exception):
    pass


class EngineLimit(Exception):
    pass


class Frame:
    __slots__ = ('key', 'body', 'bb', 'locals', 'subst', 'cont', 'site', 'frozen')

    def __init__(self, key, body, bb, locals_, subst, cont, site):
        self.key = key
        self.body = body
        self.bb = bb
        self.locals = locals_
        self.subst = subst
        self.cont = cont
        self.site = site
        self.frozen = None

    def copy(self):
        f = Frame(self.key, self.body, self.bb, dict(self.locals), self.subst, self.cont, self.site)
        f.frozen = self.frozen
        return f

    def freeze(self):
        if self.frozen is None:
            self.frozen = (self.key, self.bb, frozenset(self.locals.items()), self.cont_key(), self.subst_token())
        return self.frozen

    def cont_key(self):
        return self.cont

    def subst_token(self):
        return tuple(sorted(self.subst.items())) if self.subst else ()


class State:
    __slots__ = ('frames', 'heap', 'facts')

    def __init__(self, frames, heap, facts):
        self.frames = frames
        self.heap = heap
        self.facts = facts

    def copy(self):
        return State([f.copy() for f in self.frames], dict(self.heap), dict(self.facts))

    def key(self):
        return (tuple(f.freeze() for f in self.frames), frozenset(self.heap.items()), frozenset(self.facts.items()))


class Graph:
    def __init__(self):
        self.n = 0
        self.edges = []        # (src, dst, ev)
        self.succ = {}         # src -> [edge index]
        self.pred = {}
        self.term = {}         # node -> terminal descriptor dict
        self.entry = None
        self.notes = []        # engine notes (unmodelled things)
        self.fd = {}           # node -> frozenset of descriptor-opening roots live in locals

    def node(self):
        i = self.n
        self.n += 1
        return i

    def edge(self, a, b, ev):
        i = len(self.edges)
        self.edges.append((a, b, ev))
        self.succ.setdefault(a, []).append(i)
        self.pred.setdefault(b, []).append(i)
        return i


class Interp:
    def __init__(self, facts, models, max_nodes=400000, trace=False):
        self.F = facts
        self.T = facts['types']
        self.discr_enum = {}       # un-discr term -> type id of the (field-less library) enum it is the discriminant of
        self.B = dict(facts['bodies'])
        # analysis shims (plain-loop bodies for std's closure-driven iterator drivers): bodies of the interpreter
        self.shims = {b['path'].rsplit('::', 1)[-1]: k for k, b in facts.get('shims', {}).items()}
        self.B.update(facts.get('shims', {}))
        self.traits = facts['traits']
        self.models = models
        self.max_nodes = max_nodes
        self.trace = trace
        self.subst_registry = {}
        self._promoted_cache = {}
        self.prune = True
        self.arith_precise = False
        self.opaque = set()       # local bodies treated as uninterpreted pure functions
        self.summarise_traits = set()   # local traits whose dyn calls are kept as abstract operations
        self.track_fd = False
        self._fdw = {}
        self.dyn_force = {}       # trait path -> implementor type string (specialisation of dyn dispatch)
        self.context_sites = True

    # ------------------------------------------------------------------ run

    def run(self, entry_key, args=None, heap=None, facts=None, subst=None, ret_refine=True):
        """Explore `entry_key`.  args: list of value ids for the parameters
        (default: fresh 'param' symbols)."""
        self.G = g = Graph()
        body = self.B[entry_key]
        locals_ = {}
        n = body['arg_count']
        for i in range(1, n + 1):
            if args is not None and i - 1 < len(args) and args[i - 1] is not None:
                locals_[i] = args[i - 1]
            else:
                locals_[i] = SYM('param', str(i), body['locals'][i].get('name', 'arg%d' % i))
        fr = Frame(entry_key, body, 0, locals_, dict(subst or {}), None, None)
        st = State([fr], dict(heap or {}), dict(facts or {}))
        self.entry_key = entry_key
        self.ret_refine = ret_refine
        self.pinned = set(facts or ())      # specialisation facts are never garbage-collected
        self.seen = {}
        self.work = deque()
        g.entry = self.enter_block(st, None, None)
        while self.work:
            st, node = self.work.popleft()
            self.exec_block(st, node)
            if g.n > self.max_nodes:
                raise EngineLimit('state graph exceeds %d nodes for %s' % (self.max_nodes, entry_key))
        return g

    def liveness(self, body):
        lv = body.get('_live')
        if lv is not None:
            return lv
        blocks = body['blocks']
        nb = len(blocks)
        addr_taken = set()
        use = [set() for _ in range(nb)]
        defs = [set() for _ in range(nb)]
        succs = [[] for _ in range(nb)]

        def u_place(i, pl, is_def=False):
            l = pl['l']
            for e in pl['p']:
                if isinstance(e, list) and e[0] == 'idx':
                    if e[1] not in defs[i]:
                        use[i].add(e[1])
            if is_def and not pl['p']:
                defs[i].add(l)
            else:
                if l not in defs[i]:
                    use[i].add(l)

        def u_op(i, o):
            if o['k'] in ('copy', 'move'):
                u_place(i, o['pl'])

        for i, b in enumerate(blocks):
            for st_ in b['stmts']:
                if st_['k'] == 'assign':
                    rv = st_['rv']
                    k = rv['k']
                    if k in ('use', 'cast', 'repeat'):
                        u_op(i, rv['op'])
                    elif k in ('ref', 'rawptr'):
                        addr_taken.add(rv['pl']['l'])
                        u_place(i, rv['pl'])
                    elif k == 'discr':
                        u_place(i, rv['pl'])
                    elif k == 'binop':
                        u_op(i, rv['a'])
                        u_op(i, rv['b'])
                    elif k == 'unop':
                        u_op(i, rv['a'])
                    elif k == 'agg':
                        for o in rv['ops']:
                            u_op(i, o)
                    u_place(i, st_['pl'], is_def=True)
                elif st_['k'] == 'setdiscr':
                    u_place(i, st_['pl'])
            t = b['term']
            k = t['k']
            if k == 'goto':
                succs[i] = [t['target']]
            elif k == 'switch':
                u_op(i, t['discr'])
                succs[i] = [x[1] for x in t['targets']] + [t['otherwise']]
            elif k == 'call':
                if t['func']['k'] != 'const':
                    u_op(i, t['func'])
                for a in t['args']:
                    u_op(i, a)
                u_place(i, t['dest'], is_def=True)
                if t['target'] is not None:
                    succs[i] = [t['target']]
            elif k == 'drop':
                u_place(i, t['pl'])
                succs[i] = [t['target']]
            elif k == 'assert':
                u_op(i, t['cond'])
                succs[i] = [t['target']]
            elif k == 'return':
                use[i].add(0) if 0 not in defs[i] else None
        live_in = [set() for _ in range(nb)]
        changed = True
        while changed:
            changed = False
            for i in range(nb - 1, -1, -1):
                out = set()
                for s_ in succs[i]:
                    out |= live_in[s_]
                new = use[i] | (out - defs[i])
                if new != live_in[i]:
                    live_in[i] = new
                    changed = True
        lv = (live_in, addr_taken)
        body['_live'] = lv
        return lv

    FD_ADTS = {'std::fs::File', 'std::fs::ReadDir', 'std::fs::DirEntry', 'tempfile::NamedTempFile',
               'tempfile::SpooledTempFile', 'std::os::fd::OwnedFd', 'std::io::BufReader', 'std::io::BufWriter'}

    def fd_weight(self, tyid, depth=0):
        w = self._fdw.get(tyid)
        if w is not None:
            return w
        t = self.T[tyid]
        self._fdw[tyid] = 0
        k = t['k']
        w = 0
        if depth > 12:
            w = 0
        elif k == 'adt':
            if t['adt'] in self.FD_ADTS:
                w = 1
            elif t.get('local') and t.get('variants'):
                for v in t['variants']:
                    w = max(w, sum(self.fd_weight(f['ty'], depth + 1) for f in v['fields'] if 'ty' in f))
            else:
                w = sum(self.fd_weight(a, depth + 1) for a in t.get('targs', []))
        elif k == 'tuple':
            w = sum(self.fd_weight(e, depth + 1) for e in t['elems'])
        elif k in ('array', 'slice'):
            w = self.fd_weight(t['elem'], depth + 1)
        elif k == 'closure':
            w = self.fd_weight(t['upvars'], depth + 1)
        self._fdw[tyid] = w
        return w

    OPENERS = ('open_ro', 'open_rw', 'list_dir', 'temp_create_named', 'temp_create_anon', 'temp_create_named_default',
               'ns_create_file', 'fd_dup')

    def fd_roots(self, v):
        """Descriptor-opening calls a value may own: walk the term, stopping at opener
        applications (their own arguments are paths, not owned descriptors)."""
        import prims
        from values import children
        out = set()
        seen = set()
        work = [v]
        while work:
            s = work.pop()
            if s in seen:
                continue
            seen.add(s)
            t = VAL[s]
            if t[0] == 'sym' and t[1] == 'app':
                p = t[2]
                if prims.classify(p)[0] in self.OPENERS or p.startswith('trait::'):
                    out.add(s)
                    continue
            if t[0] == 'mu' and not t[1].rsplit('::', 1)[-1] in ('push', 'extend', 'insert', 'push_back', 'push_front', 'append', 'extend_from_slice'):
                continue   # arguments of a non-inserting mutation are not owned by the mutated object
            if t[0] == 'agg' and ((t[1] == 'std::result::Result' and t[2] == 'v1') or (t[1] == 'std::option::Option' and t[2] == 'v0')):
                continue   # an Err(..) built from a failed call's error, or None: mentions the call but owns no descriptor
            work.extend(children(t))
        return out

    def live_fd_roots(self, st):
        roots = set()
        for f in st.frames:
            decls = f.body['locals']
            for l, v in f.locals.items():
                if l < len(decls) and self.fd_weight(decls[l]['ty']) > 0:
                    t = VAL[v]
                    if t[0] == 'sym':
                        var = st.facts.get(('var', v))
                        adt = self.T[decls[l]['ty']].get('adt')
                        if var is not None and ((adt == 'std::result::Result' and var == 1) or
                                                (adt == 'std::option::Option' and var == 0)):
                            continue   # known Err / None: holds no descriptor
                    r = self.fd_roots(v)
                    if r:
                        roots |= r
                    elif t[0] == 'sym':
                        # a descriptor of unknown origin: a File parameter or one produced by a user callback
                        top = v
                        while VAL[top][0] == 'sym' and VAL[top][1] in ('vf', 'fld', 'mut'):
                            top = VAL[top][2]
                        if VAL[top][0] == 'sym' and VAL[top][1] in ('param', 'cb'):
                            roots.add(top)
        return frozenset(roots)

    def prune_dead(self, st):
        fr = st.frames[-1]
        live_in, addr_taken = self.liveness(fr.body)
        li = live_in[fr.bb]
        n = fr.body['arg_count']
        dead = [l for l in fr.locals if l not in li and l not in addr_taken]
        if dead:
            for l in dead:
                del fr.locals[l]
            fr.frozen = None

    def enter_block(self, st, from_node, ev):
        if self.prune:
            self.prune_dead(st)
            if st.facts:
                self.gc_facts(st, None)
        k = st.key()
        n = self.seen.get(k)
        if n is None:
            n = self.G.node()
            self.seen[k] = n
            self.work.append((st, n))
            if self.track_fd:
                self.G.fd[n] = self.live_fd_roots(st)
        if from_node is not None:
            self.G.edge(from_node, n, ev)
        return n

    # ------------------------------------------------------- block execution

    def exec_block(self, st, node):
        """Run the top frame's current block from its first statement."""
        pending = [(st, 0, node)]
        while pending:
            st, pc, node = pending.pop()
            fr = st.frames[-1]
            block = fr.body['blocks'][fr.bb]
            stmts = block['stmts']
            try:
                while pc < len(stmts):
                    self.cur_events = []
                    self.exec_stmt(st, fr, stmts[pc])
                    node = self.flush_events(node)
                    pc += 1
                self.cur_events = []
                outs = self.exec_term(st, fr, block['term'])
                node = self.flush_events(node)
                for (st2, ev) in outs:
                    if st2 is None:
                        # terminal
                        t = self.G.node()
                        self.G.edge(node, t, ev)
                        self.G.term[t] = ev
                    else:
                        self.enter_block(st2, node, ev)
            except NeedFork as nf:
                for (val, label) in nf.options:
                    s2 = st.copy()
                    s2.facts[nf.key] = val
                    n2 = self.G.node()
                    ev = dict(label)
                    ev['site'] = self.site_of(fr)
                    ev['ctx'] = self.ctx_of(st)
                    self.G.edge(node, n2, ev)
                    pending.append((s2, pc, n2))
            except Infeasible:
                pass

    def flush_events(self, node):
        for ev in self.cur_events:
            n2 = self.G.node()
            self.G.edge(node, n2, ev)
            node = n2
        self.cur_events = []
        return node

    def emit(self, st, fr, ev):
        ev['site'] = self.site_of(fr)
        ev['ctx'] = self.ctx_of(st)
        self.cur_events.append(ev)

    def site_term(self, st, fr):
        """Identity of a call site *in its calling context*: values produced by a shared helper are distinct
        objects when the helper is reached through different call sites."""
        if not self.context_sites or len(st.frames) == 1:
            return SITE(fr.key, fr.bb)
        ctxs = '>'.join('%s:%d' % (f.key.rsplit('::', 1)[-1], f.bb) for f in st.frames[:-1])
        return mk(('site', fr.key, 'bb%d' % fr.bb, ctxs))

    def site_of(self, fr):
        t = fr.body['blocks'][fr.bb]['term']
        return (fr.key, fr.bb, t.get('span', ''))

    def ctx_of(self, st):
        return tuple(f.key for f in st.frames)

    # ------------------------------------------------------------ addresses

    def eval_place(self, st, depth, pl):
        addr = ('loc', (depth, pl['l']), ())
        for e in pl['p']:
            if e == 'deref':
                v = self.load(st, addr)
                if v is None:
                    v = SYM('undef', 'deref')
                t = VAL[v]
                if t[0] == 'ptr':
                    addr = t[1]
                else:
                    addr = ('sroot', v, ())
            elif e[0] == 'f':
                addr = (addr[0], addr[1], addr[2] + (('f', e[1]),))
            elif e[0] == 'dc':
                addr = (addr[0], addr[1], addr[2] + (('dc', e[1]),))
            elif e[0] in ('idx', 'cidx', 'sub'):
                addr = (addr[0], addr[1], addr[2] + (('i',),))
            else:
                addr = (addr[0], addr[1], addr[2] + (('o',),))
        return addr

    def walk(self, st, v, proj):
        pend_dc = None
        for e in proj:
            if v is None:
                return None
            t = VAL[v]
            k = e[0]
            if k == 'dc':
                if t[0] == 'agg':
                    if int(t[2][1:]) != e[1]:
                        return None
                else:
                    pend_dc = e[1]
                continue
            if k == 'f':
                if t[0] == 'agg':
                    fs = t[3:]
                    v = fs[e[1]] if e[1] < len(fs) else None
                elif t[0] == 'sym' and t[1] == 'upd' and t[3] == 'f%d' % e[1] and pend_dc is None:
                    v = t[4]
                elif pend_dc is not None:
                    v = SYM('vf', v, 'v%d' % pend_dc, 'f%d' % e[1])
                else:
                    # a field of an updated symbolic struct: the innermost update of that field, else the base's field
                    found = None
                    while t[0] == 'sym' and t[1] == 'upd':
                        if t[3] == 'f%d' % e[1]:
                            found = t[4]
                            break
                        v = t[2]
                        t = VAL[v]
                    v = found if found is not None else SYM('fld', v, 'f%d' % e[1])
                pend_dc = None
                continue
            # pseudo projections: arc / box / index / opaque
            name = {'i': 'idx', 'o': 'opaque'}.get(k, k)
            if t[0] == 'sym' and t[1] == 'upd' and t[3] == name:
                v = t[4]
            else:
                v = SYM('fld', v, name)
            pend_dc = None
        return v

    def load(self, st, addr):
        kind, x, proj = addr
        if kind == 'loc':
            return self.walk(st, st.frames[x[0]].locals.get(x[1]), proj)
        if kind == 'cell':
            return self.walk(st, st.heap.get(('cell', x)), proj)
        if kind == 'sroot':
            for n in range(len(proj), -1, -1):
                k = ('s', x, proj[:n])
                if k in st.heap:
                    return self.walk(st, st.heap[k], proj[n:])
            return self.walk(st, SYM('ld', x, '*'), proj)
        raise AssertionError(addr)

    def put(self, old, proj, val):
        if not proj:
            return val
        e = proj[0]
        k = e[0]
        rest = proj[1:]
        t = VAL[old] if old is not None else None
        if k == 'dc':
            if t is not None and t[0] == 'agg':
                return self.put(old, rest, val)
            if t is None:
                return self.put(AGG('?', e[1], ()), rest, val)
            return self.put(old, rest, val)
        if k == 'f':
            i = e[1]
            if t is not None and t[0] == 'agg':
                fs = list(t[3:])
                while len(fs) <= i:
                    fs.append(None)
                fs[i] = self.put(fs[i], rest, val)
                return mk(t[:3] + tuple(fs))
            if t is None:
                fs = [None] * (i + 1)
                fs[i] = self.put(None, rest, val)
                return AGG('?', 0, fs)
            inner = self.put(SYM('fld', old, 'f%d' % i), rest, val) if rest else val
            # updates of a symbolic struct are kept as one layer per field, in field order: re-assigning a field in a
            # loop replaces the previous update instead of nesting
            ups = {}
            base = old
            while t is not None and t[0] == 'sym' and t[1] == 'upd':
                ups.setdefault(t[3], t[4])
                base = t[2]
                t = VAL[base]
            ups['f%d' % i] = inner
            out = base
            for fname in sorted(ups):
                out = SYM('upd', out, fname, ups[fname])
            return out
        name = {'i': 'idx', 'o': 'opaque'}.get(k, k)
        base = old if old is not None else SYM('undef', 'put')
        inner = self.put(SYM('fld', base, name), rest, val) if rest else val
        return SYM('upd', base, name, inner)

    def store(self, st, addr, val):
        kind, x, proj = addr
        if kind == 'loc':
            fr = st.frames[x[0]]
            if not proj:
                if val is None:
                    fr.locals.pop(x[1], None)
                else:
                    fr.locals[x[1]] = val
            else:
                fr.locals[x[1]] = self.put(fr.locals.get(x[1]), proj, val)
            fr.frozen = None
            return
        if kind == 'cell':
            k = ('cell', x)
            nv = self.put(st.heap.get(k), proj, val)
            if nv is None:
                st.heap.pop(k, None)
            else:
                st.heap[k] = nv
            return
        if kind == 'sroot':
            # drop overlapping stores (prefix relation either way)
            for k in [k for k in st.heap if k[0] == 's' and k[1] == x and
                      (k[2][:len(proj)] == proj or proj[:len(k[2])] == k[2])]:
                if len(k[2]) < len(proj):
                    # stored aggregate covers this place: update inside it
                    st.heap[k] = self.put(st.heap[k], proj[len(k[2]):], val)
                    return
                del st.heap[k]
            if val is not None:
                st.heap[('s', x, proj)] = val
            return
        raise AssertionError(addr)

    # ----------------------------------------------------------- resolution

    def resolve(self, st, v, depth=4):
        """Snapshot: replace pointers by the values they point to."""
        if v is None or depth <= 0:
            return v
        t = VAL[v]
        if t[0] == 'ptr':
            p = self.load(st, t[1])
            if p is None:
                return SYM('undef', 'ptr')
            return self.resolve(st, p, depth - 1)
        if t[0] == 'agg':
            fs = tuple(self.resolve(st, f, depth - 1) for f in t[3:])
            if fs != t[3:]:
                return mk(t[:3] + fs)
        return v

    def peel(self, st, v):
        """Follow pointer-to-pointer chains: returns the innermost pointer (or value)."""
        n = 0
        while v is not None and VAL[v][0] == 'ptr' and n < 8:
            inner = self.load(st, VAL[v][1])
            if inner is not None and VAL[inner][0] == 'ptr':
                v = inner
                n += 1
            else:
                break
        return v

    def own(self, st, v):
        """Value behind any number of pointers."""
        n = 0
        while v is not None and VAL[v][0] == 'ptr' and n < 8:
            v = self.load(st, VAL[v][1])
            n += 1
        return v

    # --------------------------------------------------------------- operands

    def const_value(self, st, fr, o):
        ty = self.T[o['ty']]
        if 'fn' in o:
            c = o['fn']
            return FN(c['path'], c.get('key') or c['resolved'].get('key'), tuple(c.get('gargs', ())))
        if 'promoted' in o:
            return self.eval_promoted(st, fr, o)
        v = o.get('val')
        if v is None:
            if 'named' in o:
                return SYM('const', o['named'])
            return SYM('const', ty['s'])
        if 'int' in v and not v.get('ptr'):
            return INT(v['int'])
        if 'str' in v:
            return STR(v['str'])
        if v.get('pointee_bytes') is not None and ty['k'] == 'ref' and self.T[ty['to']]['k'] == 'array' and \
                self.T[self.T[ty['to']]['elem']].get('name') == 'u8':
            return STR(bytes.fromhex(v['pointee_bytes']).decode('latin-1'))     # byte-string literal
        if v.get('zst'):
            if ty['k'] == 'closure':
                return AGG('closure:%s|' % ty['key'], 0, ())
            return ZST(ty['s'])
        if 'named' in o:
            return SYM('const', o['named'])
        if 'bytes' in v:
            return SYM('constbytes', ty['s'], v['bytes'])
        return SYM('const', ty['s'])

    def eval_promoted(self, st, fr, o):
        """Promoted constants are tiny straight-line bodies; evaluate them in a
        scratch frame and keep the result in a heap cell."""
        idx = o['promoted']
        owner = o.get('promoted_of', fr.key)
        ck = ('prom', owner, idx)
        cell = ('cell', ck)
        if cell not in st.heap:
            ob = self.B.get(owner)
            if ob is None or idx >= len(ob.get('promoted', [])):
                return SYM('const', 'promoted')
            val = self.eval_straightline(st, ob['promoted'][idx], fr, (owner, idx))
            st.heap[cell] = val
        v = st.heap[cell]
        return v

    def eval_straightline(self, st, body, parent_fr, ident):
        tmp = Frame(parent_fr.key + '::promoted', body, 0, {}, parent_fr.subst, None, None)
        st.frames.append(tmp)
        try:
            bb = 0
            for _ in range(64):
                tmp.bb = bb
                blk = body['blocks'][bb]
                for s in blk['stmts']:
                    self.exec_stmt(st, tmp, s, promoted=True)
                t = blk['term']
                if t['k'] == 'return':
                    break
                if t['k'] == 'goto':
                    bb = t['target']
                    continue
                break
            v = tmp.locals.get(0)
            # result is a reference to a local of the promoted body: move that
            # local into its own cell so the pointer stays valid
            if v is not None and VAL[v][0] == 'ptr' and VAL[v][1][0] == 'loc' and VAL[v][1][1][0] == len(st.frames) - 1:
                a = VAL[v][1]
                inner = self.resolve(st, tmp.locals.get(a[1][1]), 6)
                ck = ('promv', ident[0], ident[1], a[1][1])
                st.heap[('cell', ck)] = inner
                v = PTR(('cell', ck, a[2]))
            return v
        finally:
            st.frames.pop()

    def eval_operand(self, st, fr, o, depth=None):
        k = o['k']
        if k in ('copy', 'move'):
            d = len(st.frames) - 1 if depth is None else depth
            addr = self.eval_place(st, d, o['pl'])
            return self.load(st, addr)
        if k == 'const':
            return self.const_value(st, fr, o)
        return SYM('undef', 'operand')

    def clear_moves(self, st, fr, operands):
        d = len(st.frames) - 1
        for o in operands:
            if o['k'] != 'move':
                continue
            pl = o['pl']
            if not pl['p']:
                if fr.locals.pop(pl['l'], None) is not None:
                    fr.frozen = None
            elif all(isinstance(e, list) and e[0] in ('f', 'dc') for e in pl['p']):
                # a field moved out of an aggregate held in a local: that part is now uninitialised
                base = fr.locals.get(pl['l'])
                if base is not None and VAL[base][0] == 'sym' and pl['p'][0][0] == 'dc' and pl['l'] < len(fr.body['locals']):
                    # `move ((x as Some).0)` out of a symbolic enum value: materialise the (known) variant so that the
                    # moved-out payload can be marked uninitialised -- x no longer owns what was moved
                    ty = self.T[fr.body['locals'][pl['l']]['ty']]
                    vidx = pl['p'][0][1]
                    vs = ty.get('variants')
                    if vs and ty.get('adt') and isinstance(vidx, int) and vidx < len(vs) and st.facts.get(('var', base)) == vidx:
                        base = AGG(ty['adt'], vidx, self.variant_fields(st, base, vidx, len(vs[vidx]['fields'])))
                if base is not None and VAL[base][0] == 'agg':
                    proj = tuple((e[0], e[1]) for e in pl['p'])
                    try:
                        fr.locals[pl['l']] = self.put(base, proj, None)
                        fr.frozen = None
                    except Exception:
                        pass

    # ------------------------------------------------------------- refinement

    def variant_of(self, st, v, variants, what):
        """Variant index of an enum-typed value; forks when unknown.
        variants: list of names."""
        if v is None:
            raise Infeasible()
        t = VAL[v]
        if t[0] == 'agg':
            return int(t[2][1:])
        key = ('var', v)
        f = st.facts.get(key)
        if f is not None:
            return f
        opts = []
        for i, name in enumerate(variants):
            if name is None:
                continue
            opts.append((i, {'k': 'refine', 'val': v, 'variant': i, 'vname': name, 'what': what}))
        raise NeedFork(key, opts)

    def variant_fields(self, st, v, variant, nfields):
        t = VAL[v]
        if t[0] == 'agg':
            fs = list(t[3:])
            while len(fs) < nfields:
                fs.append(None)
            return fs[:nfields]
        return [SYM('vf', v, 'v%d' % variant, 'f%d' % i) for i in range(nfields)]

    def enum_variants(self, tyid):
        t = self.T[tyid]
        vs = t.get('variants')
        if not vs:
            return None
        return vs

    # -------------------------------------------------------------- statements

    def exec_stmt(self, st, fr, s, promoted=False):
        k = s['k']
        if k == 'assign':
            d = len(st.frames) - 1
            val = self.eval_rvalue(st, fr, s['rv'], d)
            addr = self.eval_place(st, d, s['pl'])
            self.store(st, addr, val)
            rv = s['rv']
            if rv['k'] == 'use':
                self.clear_moves(st, fr, [rv['op']])
            elif rv['k'] == 'agg':
                self.clear_moves(st, fr, rv['ops'])
        elif k == 'dead':
            if fr.locals.pop(s['l'], None) is not None:
                fr.frozen = None
        elif k == 'setdiscr':
            pass

    def eval_rvalue(self, st, fr, rv, d):
        k = rv['k']
        if k == 'use':
            return self.eval_operand(st, fr, rv['op'])
        if k == 'ref' or k == 'rawptr':
            addr = self.eval_place(st, d, rv['pl'])
            return PTR(addr)
        if k == 'discr':
            addr = self.eval_place(st, d, rv['pl'])
            v = self.load(st, addr)
            vs = self.enum_variants(rv['of_ty'])
            if v is None:
                raise Infeasible()
            t = VAL[v]
            if t[0] == 'agg':
                idx = int(t[2][1:])
                if vs and idx < len(vs) and 'discr' in vs[idx]:
                    return INT(vs[idx]['discr'])
                return INT(idx)
            if not vs:
                return SYM('un', 'discr', v)
            ety = self.T[rv['of_ty']]
            if not ety.get('local') and ety.get('adt') not in ('std::option::Option', 'std::result::Result') and all(not x['fields'] for x in vs):
                # a field-less library enum (io::ErrorKind, cmp::Ordering): `match x { A => .., _ => .. }` is decided by
                # the switch on its discriminant (arms + otherwise), not by enumerating every variant here
                d = SYM('un', 'discr', v)
                self.discr_enum[d] = rv['of_ty']
                return d
            idx = self.variant_of(st, v, [x['name'] for x in vs], self.T[rv['of_ty']].get('adt', ''))
            return INT(vs[idx].get('discr', idx))
        if k == 'agg':
            ops = [self.eval_operand(st, fr, o) for o in rv['ops']]
            a = rv['agg']
            if a == 'tuple':
                return AGG('tuple', 0, ops)
            if a == 'array':
                return AGG('array', 0, ops)
            if a == 'adt':
                return AGG(rv['adt'], rv['variant'], ops)
            if a == 'closure':
                tok = self.subst_token(fr.subst)
                return AGG('closure:%s|%s' % (rv['key'], tok), 0, ops)
            return SYM('agg', a, *[o for o in ops if o is not None])
        if k == 'cast':
            v = self.eval_operand(st, fr, rv['op'])
            c = rv['cast']
            if v is None:
                return None
            if c.startswith('coerce') or c in ('ptr_to_ptr', 'transmute', 'PtrToPtr'):
                return v
            if c == 'int_to_int':
                if is_int(v):
                    return INT(self.wrap_int(int_of(v), rv['ty']))
                return SYM('cast', v, self.T[rv['ty']]['s'])
            return SYM('cast', v, self.T[rv['ty']]['s'])
        if k == 'binop':
            a = self.eval_operand(st, fr, rv['a'])
            b = self.eval_operand(st, fr, rv['b'])
            return self.binop(st, rv['op'], a, b, rv)
        if k == 'unop':
            a = self.eval_operand(st, fr, rv['a'])
            op = rv['op']
            if is_int(a):
                x = int_of(a)
                if op == 'Not':
                    if self.operand_is_bool(fr, rv['a']):
                        return INT(0 if x else 1)
                    return SYM('un', op, a)
                if op == 'Neg':
                    return INT(-x)
            if op == 'Not' and a is not None and VAL[a][0] == 'sym' and VAL[a][1] == 'cmp' and self.operand_is_bool(fr, rv['a']):
                # negation of a comparison over a total order is the complementary comparison
                comp = {'Lt': 'Ge', 'Le': 'Gt', 'Gt': 'Le', 'Ge': 'Lt', 'Eq': 'Ne', 'Ne': 'Eq'}
                t = VAL[a]
                return SYM('cmp', comp[t[2]], t[3], t[4])
            if op == 'PtrMetadata':
                return SYM('un', 'len', self.resolve(st, a))
            return SYM('un', op, a if a is not None else SYM('undef', 'un'))
        if k == 'tlref':
            return SYM('tl', rv['static'])
        if k == 'repeat':
            v = self.eval_operand(st, fr, rv['op'])
            return AGG('array', 0, [v])
        return SYM('opaque_rv', rv.get('dbg', k)[:40])

    def operand_is_bool(self, fr, o):
        if o['k'] in ('copy', 'move') and not o['pl']['p']:
            return self.T[fr.body['locals'][o['pl']['l']]['ty']]['k'] == 'bool'
        if o['k'] == 'const':
            return self.T[o['ty']]['k'] == 'bool'
        return False

    def wrap_int(self, x, tyid):
        t = self.T[tyid]
        name = t.get('name', '')
        bits = {'u8': 8, 'u16': 16, 'u32': 32, 'u64': 64, 'u128': 128, 'usize': 64,
                'i8': 8, 'i16': 16, 'i32': 32, 'i64': 64, 'i128': 128, 'isize': 64}.get(name)
        if t['k'] == 'bool':
            return 1 if x else 0
        if bits is None:
            return x
        x &= (1 << bits) - 1
        if t['k'] == 'int' and x >= (1 << (bits - 1)):
            x -= (1 << bits)
        return x

    def binop(self, st, op, a, b, rv):
        if a is None or b is None:
            return SYM('undef', 'binop')
        base = op.replace('WithOverflow', '').replace('Unchecked', '')
        cmp_op = base in ('Eq', 'Ne', 'Lt', 'Le', 'Gt', 'Ge')
        if is_int(a) and is_int(b) and (cmp_op or self.arith_precise):
            x, y = int_of(a), int_of(b)
            r = None
            if base == 'Add':
                r = x + y
            elif base == 'Sub':
                r = x - y
            elif base == 'Mul':
                r = x * y
            elif base == 'Div' and y != 0:
                r = x // y
            elif base == 'Rem' and y != 0:
                r = x % y
            elif base == 'BitAnd':
                r = x & y
            elif base == 'BitOr':
                r = x | y
            elif base == 'BitXor':
                r = x ^ y
            elif base == 'Shl':
                r = x << y
            elif base == 'Shr':
                r = x >> y
            elif base == 'Eq':
                r = int(x == y)
            elif base == 'Ne':
                r = int(x != y)
            elif base == 'Lt':
                r = int(x < y)
            elif base == 'Le':
                r = int(x <= y)
            elif base == 'Gt':
                r = int(x > y)
            elif base == 'Ge':
                r = int(x >= y)
            if r is not None:
                if 'WithOverflow' in op:
                    return AGG('tuple', 0, [INT(r), INT(0)])
                return INT(r)
        ra, rb = self.resolve(st, a), self.resolve(st, b)
        if op in ('Eq', 'Ne', 'Lt', 'Le', 'Gt', 'Ge'):
            return SYM('cmp', op, ra, rb)
        if not self.arith_precise:
            # shallow arithmetic: nested arithmetic collapses to its leaves at once
            for x in (ra, rb):
                tx = VAL[x]
                if tx[0] == 'sym' and tx[1] in ('bin', 'wide', 'arith'):
                    w = SYM('arith')
                    if 'WithOverflow' in op:
                        return AGG('tuple', 0, [w, SYM('ovf', w)])
                    return w
        if 'WithOverflow' in op:
            return AGG('tuple', 0, [SYM('bin', base, ra, rb), SYM('ovf', ra, rb)])
        return SYM('bin', base, ra, rb)

    # -------------------------------------------------------------- terminators

    def goto(self, st, fr, bb):
        fr.bb = bb
        fr.frozen = None
        return [(st, None)]

    def exec_term(self, st, fr, t):
        k = t['k']
        if k == 'goto':
            return self.goto(st, fr, t['target'])
        if k == 'switch':
            v = self.eval_operand(st, fr, t['discr'])
            if v is None:
                raise Infeasible()
            targets = t['targets']

            def sw_goto(bb):
                self.clear_moves(st, fr, [t['discr']])
                return self.goto(st, fr, bb)

            if is_int(v):
                x = int_of(v)
                ty = self.T[t['discr_ty']]
                # switch values are raw bits
                for (val, bb) in targets:
                    if val == x or (x < 0 and self.wrap_unsigned(x, ty) == val):
                        return sw_goto(bb)
                return sw_goto(t['otherwise'])
            key = ('sw', v)
            f = st.facts.get(key)
            vals = tuple(val for (val, _) in targets)
            if f is not None:
                if isinstance(f, int):
                    for (val, bb) in targets:
                        if val == f:
                            return sw_goto(bb)
                    return sw_goto(t['otherwise'])
                # f = ('not', excluded)
                if all(x in f[1] for x in vals):
                    return sw_goto(t['otherwise'])
                excluded = f[1]
            else:
                excluded = ()
            isbool = self.T[t['discr_ty']]['k'] == 'bool'
            # events are reported on a canonical condition: `a != b is false` is `a == b is true`, so rules written over
            # equality tests see `x != K` and `!(x == K)` alike (the fact itself stays keyed on the original value)
            tv = VAL[v]
            flip = isbool and tv[0] == 'sym' and tv[1] == 'cmp' and tv[2] == 'Ne'
            ev_v = SYM('cmp', 'Eq', tv[3], tv[4]) if flip else v
            if isbool and tv[0] == 'sym' and tv[1] == 'un' and tv[2] == 'Not' and len(tv) > 3:
                flip, ev_v = True, tv[3]          # `!p is true` is `p is false`
            enum_ty = self.T[self.discr_enum[v]] if v in self.discr_enum else None

            def bev(val):
                if enum_ty is not None:
                    # `match kind { NotFound => .. }` reads like `kind == NotFound`
                    idx = [i for i, x in enumerate(enum_ty['variants']) if x.get('discr', i) == val]
                    if idx:
                        return {'k': 'branch', 'val': SYM('cmp', 'Eq', tv[3], AGG(enum_ty['adt'], idx[0], [])), 'eq': 1}
                return {'k': 'branch', 'val': ev_v, 'eq': (1 - val) if flip else val}
            opts = []
            for val in vals:
                if val in excluded:
                    continue
                opts.append((val, bev(val)))
            rest = tuple(sorted(set(excluded) | set(vals)))
            if isbool and len(rest) == 1:
                opts.append((1 - rest[0], bev(1 - rest[0])))
            elif not (isbool and len(rest) >= 2):
                if enum_ty is not None and len(rest) == 1:
                    e1 = bev(rest[0])
                    opts.append((('not', rest), {'k': 'branch', 'val': e1['val'], 'eq': 0}))
                else:
                    opts.append((('not', rest), {'k': 'branch', 'val': v, 'ne': rest}))
            raise NeedFork(key, opts)
        if k == 'return':
            return self.do_return(st, fr)
        if k == 'call':
            return self.do_call(st, fr, t)
        if k == 'drop':
            d = len(st.frames) - 1
            addr = self.eval_place(st, d, t['pl'])
            v = self.load(st, addr)
            if v is not None:
                tys = self.T[t['ty']]['s']
                self.emit(st, fr, {'k': 'drop', 'val': self.resolve(st, v), 'ty': tys, 'tyid': t['ty']})
                if not t['pl']['p']:
                    self.store(st, addr, None)
            return self.goto(st, fr, t['target'])
        if k == 'assert':
            v = self.eval_operand(st, fr, t['cond'])
            if is_int(v):
                if bool(int_of(v)) == t['expected']:
                    return self.goto(st, fr, t['target'])
                return [(None, self.mkev(st, fr, {'k': 'panic', 'why': 'assert:' + t['msg']}))]
            self.emit(st, fr, {'k': 'assert', 'msg': t['msg'], 'val': v})
            return self.goto(st, fr, t['target'])
        if k == 'unreachable':
            raise Infeasible()
        if k in ('resume', 'abort'):
            return [(None, self.mkev(st, fr, {'k': 'unwind'}))]
        self.G.notes.append(('unsupported terminator', k, fr.key))
        raise Infeasible()

    def wrap_unsigned(self, x, ty):
        bits = {'u8': 8, 'i8': 8, 'i16': 16, 'i32': 32, 'i64': 64, 'isize': 64, 'i128': 128}.get(ty.get('name', ''), 64)
        return x & ((1 << bits) - 1)

    def mkev(self, st, fr, ev):
        ev['site'] = self.site_of(fr)
        ev['ctx'] = self.ctx_of(st)
        return ev

    # ------------------------------------------------------------------ return

    def do_return(self, st, fr):
        rv = fr.locals.get(0)
        cont = fr.cont
        if cont is None:
            # entry function returns
            ret_ty = fr.body['locals'][0]['ty']
            rvr = self.resolve(st, rv) if rv is not None else ZST()
            vs = self.enum_variants(ret_ty)
            adt = self.T[ret_ty].get('adt')
            info = {'k': 'ret', 'val': rvr,
                    'heap': {k: self.resolve(st, v) for k, v in st.heap.items() if k[0] == 's'}}
            if self.ret_refine and vs and adt in ('std::result::Result', 'std::option::Option'):
                idx = self.variant_of(st, rvr, [x['name'] for x in vs], adt)
                info['variant'] = vs[idx]['name']
                fs = self.variant_fields(st, rvr, idx, len(vs[idx]['fields']))
                info['payload'] = fs
                # Result<Option<_>> one more level
                if fs and vs[idx]['fields'] and 'ty' in vs[idx]['fields'][0]:
                    ity = vs[idx]['fields'][0]['ty']
                    ivs = self.enum_variants(ity)
                    if ivs and self.T[ity].get('adt') in ('std::option::Option', 'std::result::Result') and fs[0] is not None:
                        j = self.variant_of(st, fs[0], [x['name'] for x in ivs], self.T[ity]['adt'])
                        info['variant2'] = ivs[j]['name']
                        info['payload2'] = self.variant_fields(st, fs[0], j, len(ivs[j]['fields']))
            return [(None, self.mkev(st, fr, info))]
        if cont[0] != 'mir':
            # native continuation: the model finishes (it pops the frame itself,
            # after any fork it needs)
            return self.models.resume(self, st, fr, cont[1], cont[2], rv)
        st.frames.pop()
        caller = st.frames[-1]
        self.emit(st, caller, {'k': 'leave', 'key': fr.key, 'ret': self.known_variant(st, rv)})
        self.gc_facts(st, rv)
        _, dest, target = cont
        self.store(st, dest, rv)
        if target is None:
            raise Infeasible()
        caller.bb = target
        caller.frozen = None
        return [(st, None)]

    def kill_facts_about(self, st, v):
        """A call site produced value `v` again: facts about the previous
        instance (and anything derived from it) no longer apply."""
        if not st.facts or v is None:
            return
        dead = [k for k in st.facts if k[0] in ('var', 'sw') and v in subs(k[1]) and k not in self.pinned]
        for k in dead:
            del st.facts[k]

    def is_pure_local_app(self, v):
        # outcomes of pure local functions are functions of their arguments: re-evaluating the same
        # call yields the same outcome, so what is known about it stays valid for the whole path
        t = VAL[v]
        return t[0] == 'sym' and t[1] == 'app' and t[2].startswith('local::')

    def known_variant(self, st, v):
        """Index of the enum variant of a returned value when the state determines it (aggregate, or a
        symbolic value already refined on this path); None otherwise."""
        if v is None:
            return None
        t = VAL[v]
        if t[0] == 'agg' and t[1] in ('std::result::Result', 'std::option::Option'):
            return int(t[2][1:])
        if t[0] == 'sym':
            return st.facts.get(('var', v))
        return None

    def gc_facts(self, st, extra):
        if not st.facts:
            return
        live = set()
        if extra is not None:
            live |= subs(extra)
        for f in st.frames:
            for v in f.locals.values():
                live |= subs(v)
        for k, v in st.heap.items():
            if v is not None:
                live |= subs(v)
            if k[0] == 's':
                live |= subs(k[1])
        dead = [k for k in st.facts if k[0] in ('var', 'sw') and k[1] not in live and k not in self.pinned]
        for k in dead:
            del st.facts[k]

    # -------------------------------------------------------------------- calls

    def subst_token(self, subst):
        tok = ','.join('%s=%s' % (k, self.T[v]['s']) for k, v in sorted(subst.items())) if subst else ''
        self.subst_registry[tok] = dict(subst) if subst else {}
        return tok

    def resolve_ty(self, fr, tyid):
        t = self.T[tyid]
        if t['k'] == 'param':
            r = fr.subst.get(t['name'])
            if r is not None:
                return r
        return tyid

    def callee_subst(self, fr, c):
        s = {}
        for name, tid in zip(c.get('gparams', ()), c.get('gargs_all', ())):
            if tid is not None:
                s[name] = self.resolve_ty(fr, tid)
        return s

    def find_impl_method(self, trait, self_ty_s, name):
        tr = self.traits.get(trait)
        if not tr:
            return None
        for imp in tr['impls']:
            if imp['self_ty_s'] == self_ty_s:
                k = imp['methods'].get(name)
                if k:
                    return k
                for m in tr['methods']:
                    if m['name'] == name and m.get('key'):
                        return m['key']
        return None

    def do_call(self, st, fr, t):
        fo = t['func']
        args = [self.eval_operand(st, fr, a) for a in t['args']]
        d = len(st.frames) - 1
        dest = self.eval_place(st, d, t['dest'])
        target = t['target']
        if 'fn' not in fo:
            # indirect call through a value
            fv = self.eval_operand(st, fr, fo)
            fv = self.own(st, fv)
            if fv is not None and VAL[fv][0] == 'fn':
                return self.call_fn_value(st, fr, t, fv, args, dest, target)
            if fv is not None and is_agg(fv) and agg_kind(fv).startswith('closure:'):
                # a non-capturing closure coerced to a function pointer
                return self.call_callable(st, fr, t, [fv, AGG('tuple', 0, args)], dest, target)
            self.G.notes.append(('indirect call', fr.key, t.get('span')))
            return self.models.generic_external(self, st, fr, t, 'indirect', args, dest, target)
        c = fo['fn']
        r = c['resolved']
        # 1. statically resolved local function
        if r.get('kind') == 'item' and r.get('local') and r.get('key') in self.B:
            return self.call_local(st, fr, t, r['key'], args, self.callee_subst(fr, c), ('mir', dest, target))
        # 2. trait method of a local trait
        if c.get('trait') and c.get('trait_local'):
            sty = self.resolve_ty(fr, c['self_ty'])
            stt = self.T[sty]
            if stt['k'] == 'dyn' and c['trait'] in self.summarise_traits:
                return self.models.generic(self, st, fr, t, 'trait::%s::%s' % (c['trait'], c['name']), args,
                                           ('mir', dest, target), {'gargs': [], 'traitcall': (c['trait'], c['name'])})
            if stt['k'] == 'dyn':
                impls = self.traits[c['trait']]['impls']
                recv = self.peel(st, args[0])
                key = ('dyn', self.own_identity(st, recv))
                choice = self.dyn_force.get(c['trait']) or st.facts.get(key)
                if choice is None:
                    opts = [(imp['self_ty_s'], {'k': 'dyn', 'trait': c['trait'], 'impl': imp['self_ty_s'], 'recv': recv})
                            for imp in impls]
                    raise NeedFork(key, opts)
                k = self.find_impl_method(c['trait'], choice, c['name'])
                sub = {'Self': self.type_id_of(choice)}
                return self.call_local(st, fr, t, k, args, sub, ('mir', dest, target))
            k = self.find_impl_method(c['trait'], stt['s'], c['name'])
            if k is not None:
                sub = self.callee_subst(fr, c)
                sub['Self'] = sty
                return self.call_local(st, fr, t, k, args, sub, ('mir', dest, target))
            if stt['k'] == 'param':
                # method of a local trait on an unknown implementor (analysing a
                # provided method generically): fork over the implementors
                impls = self.traits[c['trait']]['impls']
                key = ('selfimpl', c['trait'], stt['name'])
                choice = st.facts.get(key)
                if choice is None:
                    opts = [(imp['self_ty_s'], {'k': 'dyn', 'trait': c['trait'], 'impl': imp['self_ty_s'], 'recv': args[0] if args else None})
                            for imp in impls]
                    if not opts:
                        return self.models.generic_external(self, st, fr, t, c['path'], args, dest, target)
                    raise NeedFork(key, opts)
                k = self.find_impl_method(c['trait'], choice, c['name'])
                sub = dict(fr.subst)
                sub[stt['name']] = self.type_id_of(choice)
                fr.subst = sub
                fr.frozen = None
                sub2 = self.callee_subst(fr, c)
                sub2['Self'] = self.type_id_of(choice)
                return self.call_local(st, fr, t, k, args, sub2, ('mir', dest, target))
        # 3. closure / fn-item / callback invocation
        if c.get('trait') in ('std::ops::FnOnce', 'std::ops::FnMut', 'std::ops::Fn'):
            return self.call_callable(st, fr, t, args, dest, target)
        # 4. external
        path = r.get('path') if r.get('kind') == 'item' and r.get('path') else c['path']
        return self.models.external(self, st, fr, t, c, path, args, dest, target)

    def own_identity(self, st, recv):
        return recv if recv is not None else -1

    def type_id_of(self, tystr):
        m = getattr(self, '_tyidx', None)
        if m is None:
            m = self._tyidx = {}
            for i, t in enumerate(self.T):
                m.setdefault(t['s'], i)
        return m.get(tystr)

    def call_fn_value(self, st, fr, t, fv, args, dest, target):
        _, path, key, gargs = VAL[fv]
        if key and key in self.B:
            return self.call_local(st, fr, t, key, args, {}, ('mir', dest, target))
        return self.models.external(self, st, fr, t, {'path': path, 'gargs': list(gargs), 'name': path.split('::')[-1]}, path, args, dest, target)

    def call_callable(self, st, fr, t, args, dest, target, cont=None):
        """Fn*/call*: args[0] is the callable (maybe by reference), args[1] the argument tuple."""
        cont = cont or ('mir', dest, target)
        callee = args[0]
        cv = self.own(st, callee)
        tup = args[1] if len(args) > 1 else None
        if tup is not None and is_agg(tup):
            cargs = list(agg_fields(tup))
        elif tup is None:
            cargs = []
        else:
            cargs = [tup]
        if cv is not None and is_agg(cv) and agg_kind(cv).startswith('closure:'):
            key, tok = agg_kind(cv)[len('closure:'):].split('|', 1)
            body = self.B[key]
            sub = self.subst_registry.get(tok, {})
            env_ty = self.T[body['locals'][1]['ty']]
            if env_ty['k'] == 'ref':
                if is_ptr(callee):
                    env = self.peel(st, callee)
                    # peel may stop at pointer to pointer-to-closure; make sure it points at the closure
                    while is_ptr(env) and self.load(st, VAL[env][1]) is not None and is_ptr(self.load(st, VAL[env][1])):
                        env = self.load(st, VAL[env][1])
                else:
                    ck = ('env', fr.key, fr.bb)
                    st.heap[('cell', ck)] = cv
                    env = PTR(('cell', ck, ()))
            else:
                env = cv
            return self.call_local(st, fr, t, key, [env] + cargs, sub, cont)
        if cv is not None and VAL[cv][0] == 'fn':
            _, path, key, gargs = VAL[cv]
            if key and key in self.B:
                return self.call_local(st, fr, t, key, cargs, {}, cont)
            if cont[0] != 'mir':
                # external fn item called from inside a model: apply model then resume
                return self.models.external_then(self, st, fr, t, path, cargs, cont)
            return self.models.external(self, st, fr, t, {'path': path, 'gargs': list(gargs), 'name': path.split('::')[-1]}, path, cargs, dest, target)
        # user callback (symbolic callable)
        return self.models.user_callback(self, st, fr, t, cv if cv is not None else callee, cargs, cont)

    def call_local(self, st, fr, t, key, args, subst, cont):
        if key is None or key not in self.B:
            self.G.notes.append(('missing body', key, fr.key))
            raise Infeasible()
        if key in self.opaque and cont[0] == 'mir':
            path = 'local::' + self.B[key]['path']
            return self.models.generic(self, st, fr, t, path, args, cont, {'gargs': [], 'opaque_key': key})
        depth = sum(1 for f in st.frames if f.key == key)
        if depth >= 2:
            self.G.notes.append(('recursion', key))
            self.emit(st, fr, {'k': 'recursion', 'key': key})
            raise Infeasible()
        body = self.B[key]
        locals_ = {}
        n = body['arg_count']
        # closures and "rust-call" bodies take their arguments spread; we already spread them
        for i in range(n):
            if i < len(args) and args[i] is not None:
                locals_[i + 1] = args[i]
        self.clear_moves(st, fr, t['args'])
        nf = Frame(key, body, 0, locals_, subst, cont, self.site_of(fr))
        self.emit(st, fr, {'k': 'enter', 'key': key, 'args': [self.resolve(st, a) for a in args]})
        st.frames.append(nf)
        if len(st.frames) > 40:
            raise EngineLimit('call stack too deep at ' + key)
        return [(st, None)]

    def finish_call(self, st, fr, dest, target, val):
        """Store the result of an external call and continue in the caller."""
        if target is None:
            return [(None, self.mkev(st, fr, {'k': 'diverge'}))]
        self.store(st, dest, val)
        fr.bb = target
        fr.frozen = None
        return [(st, None)]
