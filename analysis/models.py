"""Transfer functions for external (std / dependency) callees.

Three groups:
  * precise models of the ~40 std combinators whose semantics the rules rely on
    (Try/FromResidual, Option/Result adaptors, transparent conversions, PathBuf
    push/pop, higher-order helpers that call closures);
  * a generic fallback for every other external callee: an event is recorded with
    the resolved argument terms, `&mut` arguments are havocked (idempotently), and
    the result is a fresh term `app(callee, site, args)` whose variant, if it is
    an enum, is refined lazily when the code inspects it;
  * user callbacks (calls through a symbolic callable).
"""
from values import (VAL, INT, STR, ZST, FN, AGG, SITE, SYM, PTR, MUT, mk, is_int, int_of, is_sym, is_agg,
                    is_ptr, agg_variant, agg_fields, agg_kind)
from engine import NeedFork, Infeasible
from values import subs as values_subs

OPTION = 'std::option::Option'
RESULT = 'std::result::Result'
CF = 'std::ops::ControlFlow'


def norm_path(p):
    res = ''
    stack = []
    depth = 0
    i = 0
    n = len(p)
    while i < n:
        c = p[i]
        if c == '<':
            if (i == 0 or p[i - 1] in ' (,&<') and depth == 0:
                stack.append('q')
                res += c
            else:
                stack.append('g')
                depth += 1
                if res.endswith('::'):
                    res = res[:-2]
        elif c == '>' and (i == 0 or p[i - 1] != '-'):
            k = stack.pop() if stack else 'g'
            if k == 'q':
                res += c
            else:
                depth -= 1
        else:
            if depth == 0:
                res += c
        i += 1
    return res


def SOME(v):
    return AGG(OPTION, 1, [v])


def NONE():
    return AGG(OPTION, 0, [])


def OK(v):
    return AGG(RESULT, 0, [v])


def ERR(e):
    return AGG(RESULT, 1, [e])


RES_V = ['Ok', 'Err']
OPT_V = ['None', 'Some']

# value-preserving reference -> reference conversions
TRANSPARENT_REF = {
    '<std::path::PathBuf as std::ops::Deref>::deref',
    '<std::borrow::Cow as std::ops::Deref>::deref',
    '<tempfile::TempPath as std::ops::Deref>::deref',
    '<std::vec::Vec as std::ops::Deref>::deref',
    '<std::vec::Vec as std::ops::DerefMut>::deref_mut',
    '<std::string::String as std::ops::Deref>::deref',
    '<std::cell::Ref as std::ops::Deref>::deref',
    'std::convert::AsRef::as_ref',
    'std::borrow::Borrow::borrow',
    'std::path::Path::new',
    'std::path::PathBuf::as_path',
    'std::path::Path::as_os_str',
    'core::str::as_bytes',
    'std::string::String::as_str',
    'tempfile::NamedTempFile::as_file',
    'tempfile::NamedTempFile::as_file_mut',
    'tempfile::NamedTempFile::path',
    'std::hint::must_use',
    'core::slice::iter',
    'std::iter::Iterator::flatten',
    'std::iter::Iterator::by_ref',
    'std::cell::RefCell::borrow',
}

# value-preserving conversions producing an owned value
TRANSPARENT_OWN = {
    '<std::path::Path as std::borrow::ToOwned>::to_owned',
    '<std::path::PathBuf as std::clone::Clone>::clone',
    'std::borrow::Cow::into_owned',
    'std::path::Path::to_path_buf',
    'std::path::from',
    '<T as std::convert::Into>::into',
    '<T as std::convert::From>::from',
    'std::clone::impls::clone',
    '<std::sync::Arc as std::clone::Clone>::clone',
    '<std::option::Option as std::clone::Clone>::clone',
    '<I as std::iter::IntoIterator>::into_iter',
    '<std::vec::Vec as std::iter::IntoIterator>::into_iter',
    'std::vec::Vec::into_boxed_slice',
    'std::boxed::Box::new',
    'std::sync::Arc::new',
    'std::borrow::ToOwned::to_owned',
    'std::clone::Clone::clone',
}

PANICS = ('core::panicking::', 'std::rt::begin_panic', 'std::panicking::', 'core::option::expect_failed',
          'core::result::unwrap_failed', 'core::option::unwrap_failed')

# externals taking &mut self that do not change the abstract identity of self
NO_HAVOC = {
    '<std::fs::ReadDir as std::iter::Iterator>::next',
    '<std::iter::Flatten as std::iter::Iterator>::next',
    '<std::slice::Iter as std::iter::Iterator>::next',
    '<std::vec::IntoIter as std::iter::Iterator>::next',
    'std::iter::Iterator::next',
    '<rand::prelude::ThreadRng as rand::RngCore>::next_u64',
    'rand::Rng::gen_range',
    'std::fmt::DebugStruct::field',
    'std::fmt::DebugStruct::finish',
    'std::fmt::Formatter::debug_struct',
}


class Models:
    def __init__(self):
        self.specific = {}
        self.unmodelled_hof = set()
        for name in dir(self):
            if name.startswith('m_'):
                fn = getattr(self, name)
                for p in fn.__doc__.strip().split('\n')[0].split('|'):
                    self.specific[p.strip()] = fn

    # ------------------------------------------------------------ entry points

    def external(self, I, st, fr, t, c, path, args, dest, target):
        np = norm_path(path)
        cont = ('mir', dest, target)
        return self.dispatch(I, st, fr, t, c, np, args, cont)

    def external_then(self, I, st, fr, t, path, args, cont):
        np = norm_path(path)
        return self.dispatch(I, st, fr, t, {'path': path, 'gargs': []}, np, args, cont)

    # ------------------------------------------------------------ iterator shims

    SHIM_DRIVERS = {'find', 'any', 'all', 'find_map', 'position', 'for_each', 'fold', 'count', 'last'}
    LAZY_MAKERS = {'map', 'filter', 'filter_map', 'take_while', 'skip_while', 'inspect'}
    LAZY_PASS = {'by_ref', 'into_iter', 'fuse', 'cloned', 'copied'}

    @staticmethod
    def _is_lazy(v):
        return v is not None and is_agg(v) and agg_kind(v).startswith('lazy:')

    def _local_callable(self, I, st, a):
        o = I.own(st, a)
        if o is None:
            return False
        if is_agg(o) and agg_kind(o).startswith('closure:'):
            return agg_kind(o)[len('closure:'):].split('|', 1)[0] in I.B
        return VAL[o][0] == 'fn' and bool(VAL[o][2]) and VAL[o][2] in I.B

    def shim_dispatch(self, I, st, fr, t, c, np, args, cont):
        """Iterator drivers / lazy adapters that carry a local closure are executed through the plain-loop shim bodies
        (analysis/shims.rs) instead of being treated as opaque externals."""
        if not I.shims or cont[0] != 'mir' or not args:
            return None
        if np.startswith('std::iter::Iterator::') or np == 'std::iter::IntoIterator::into_iter':
            name = np.rsplit('::', 1)[-1]
        elif np.startswith('<') and (' as std::iter::Iterator>::' in np or np.endswith('as std::iter::IntoIterator>::into_iter')):
            # a concrete iterator's own (specialised) implementation of a provided method, e.g. slice::Iter::find_map
            name = np.rsplit('::', 1)[-1]
        else:
            return None
        recv = args[0]
        rv = I.own(st, recv)
        pointee = None
        if is_ptr(recv):
            try:
                pointee = I.load(st, VAL[I.peel(st, recv)][1]) if is_ptr(I.peel(st, recv)) else I.peel(st, recv)
            except Exception:
                pointee = None
        lazy_recv = self._is_lazy(rv) or self._is_lazy(pointee)
        has_cb = any(self._local_callable(I, st, a) for a in args[1:])
        fn_arg = len(args) == 2 and I.own(st, args[1]) is not None and VAL[I.own(st, args[1])][0] == 'fn'
        if name in self.LAZY_MAKERS and len(args) == 2 and (has_cb or (lazy_recv and fn_arg)):
            return self.finish(I, st, fr, t, cont, AGG('lazy:' + name, 0, [rv if rv is not None else recv, I.own(st, args[1])]))
        if name in self.LAZY_PASS and lazy_recv:
            return self.finish(I, st, fr, t, cont, rv if self._is_lazy(rv) else recv)
        if name == 'next' and self._is_lazy(pointee):
            kind = agg_kind(pointee)[len('lazy:'):]
            key = I.shims.get(kind + '_next')
            p = I.peel(st, recv)
            if key and is_ptr(p):
                addr = VAL[p][1]
                a0 = PTR((addr[0], addr[1], addr[2] + (('f', 0),)))
                a1 = PTR((addr[0], addr[1], addr[2] + (('f', 1),)))
                return I.call_local(st, fr, t, key, [a0, a1], {}, cont)
            return None
        if not (has_cb or lazy_recv):
            return None
        if name in ('next', 'into_iter', 'by_ref') or name in self.LAZY_MAKERS or name in self.LAZY_PASS:
            return None
        dts = I.T[t['dest_ty']]['s'] if t.get('dest_ty') is not None else ''
        shim = None
        if name in self.SHIM_DRIVERS:
            shim = name
        elif name == 'try_for_each':
            shim = 'try_for_each_result' if dts.startswith('std::result::Result') else ('try_for_each_option' if dts.startswith('std::option::Option') else None)
        elif name == 'try_fold' and dts.startswith('std::result::Result'):
            shim = 'try_fold_result'
        elif name == 'collect' and lazy_recv:
            shim = 'collect_vec' if dts.startswith('std::vec::Vec') else ('collect_result_vec' if dts.startswith('std::result::Result<std::vec::Vec') else None)
        key = I.shims.get(shim) if shim else None
        if key is None:
            return None
        I.G.notes.append(('iterator shim', shim, fr.key))
        return I.call_local(st, fr, t, key, list(args), {}, cont)

    def dispatch(self, I, st, fr, t, c, np, args, cont):
        sh = self.shim_dispatch(I, st, fr, t, c, np, args, cont)
        if sh is not None:
            return sh
        m = self.specific.get(np)
        if m is not None:
            return m(I, st, fr, t, c, np, args, cont)
        if np in TRANSPARENT_REF:
            v = I.peel(st, args[0]) if args else ZST()
            # a Cow/Ref wrapper holding a pointer: look through it
            inner = I.load(st, VAL[v][1]) if is_ptr(v) else None
            if inner is not None and is_ptr(inner):
                v = inner
            return self.finish(I, st, fr, t, cont, v)
        if np in TRANSPARENT_OWN:
            v = I.own(st, args[0]) if args else ZST()
            return self.finish(I, st, fr, t, cont, v)
        return self.generic(I, st, fr, t, np, args, cont, c)

    def finish(self, I, st, fr, t, cont, val, clear=True):
        if clear and t is not None:
            I.clear_moves(st, fr, t['args'])
        if cont[0] == 'mir':
            return I.finish_call(st, fr, cont[1], cont[2], val)
        return self.finish_native(I, st, fr, cont[1], cont[2], val)

    # ----------------------------------------------------------------- generic

    def generic_external(self, I, st, fr, t, path, args, dest, target):
        return self.generic(I, st, fr, t, norm_path(path), args, ('mir', dest, target), None)

    def generic(self, I, st, fr, t, np, args, cont, c):
        site = I.site_term(st, fr)
        rargs = [I.resolve(st, a) for a in args]
        dt = I.T[t['dest_ty']] if cont[0] == 'mir' else None
        ev = {'k': 'ext', 'path': np, 'args': rargs, 'raw_args': list(args),
              'gargs': list(c.get('gargs', ())) if c else [], 'dest_ty': dt['s'] if dt else ''}
        if c and c.get('traitcall'):
            ev['k'] = 'traitcall'
            ev['trait'], ev['method'] = c['traitcall']
        if c and c.get('opaque_key'):
            ev['k'] = 'pure_local'
            ev['key'] = c['opaque_key']
        if t.get('macro_snippet'):
            ev['macro_snippet'] = t['macro_snippet']
        if np.startswith(PANICS) or (cont[0] == 'mir' and (cont[2] is None or (dt and dt['k'] == 'never'))):
            ev['k'] = 'panic'
            ev['why'] = np
            msg = [VAL[a][1] for a in rargs if a is not None and VAL[a][0] == 'str']
            if msg:
                ev['msg'] = msg[0]
            return [(None, I.mkev(st, fr, ev))]
        # local closures / fn items handed to an unmodelled external: the external may call them.  Their effects must
        # not vanish from the graph, so the callable is run once, right after the external's own event, on symbolic
        # arguments derived from the external's operands (approximation: "called exactly once").
        hof = None
        if cont[0] == 'mir' and not (c and c.get('opaque_key')):
            for a in args:
                o = I.own(st, a)
                if o is not None and is_agg(o) and agg_kind(o).startswith('closure:'):
                    key = agg_kind(o)[len('closure:'):].split('|', 1)[0]
                    if key in I.B:
                        hof = (a, I.B[key]['arg_count'] - 1)
                        break
                if o is not None and VAL[o][0] == 'fn' and VAL[o][2] and VAL[o][2] in I.B:
                    hof = (a, I.B[VAL[o][2]]['arg_count'])
                    break
            if hof:
                I.G.notes.append(('higher-order external runs local callable once', np, fr.key))
        I.emit(st, fr, ev)
        # havoc &mut arguments
        if np not in NO_HAVOC:
            arg_tys = t.get('arg_tys', []) if cont[0] == 'mir' else []
            for i, a in enumerate(args):
                if a is None or not is_ptr(a):
                    continue
                if i < len(arg_tys):
                    aty = I.T[arg_tys[i]]
                    if not (aty['k'] == 'ref' and aty.get('mut')):
                        continue
                else:
                    continue
                addr = VAL[a][1]
                old = I.load(st, addr)
                # pointer to pointer (&mut &mut T): havoc the innermost
                while old is not None and is_ptr(old):
                    addr = VAL[old][1]
                    old = I.load(st, addr)
                others = [r for j, r in enumerate(rargs) if j != i and r is not None]
                new = MUT(old if old is not None else SYM('undef', 'mut'), np, site, others)
                if new != old:
                    I.store(st, addr, new)
        val = self.result_value(I, np, site, rargs, dt)
        ev['res'] = val
        if c and c.get('opaque_key'):
            pass    # a pure local function of the same arguments yields the same value: keep what is known about it
        elif is_agg(val):
            for f in agg_fields(val):
                I.kill_facts_about(st, f)
        else:
            I.kill_facts_about(st, val)
        if hof:
            rs = [r for r in rargs if r is not None and not (is_agg(r) and agg_kind(r).startswith('closure:'))]
            cargs = [SYM('app', '%s.cbarg%d' % (np, i), site, *rs) for i in range(max(hof[1], 0))]
            return self.call_closure(I, st, fr, t, hof[0], cargs, 'const', (cont[1], cont[2], val))
        return self.finish(I, st, fr, t, cont, val)

    def result_value(self, I, np, site, rargs, dt):
        rs = [r for r in rargs if r is not None]
        # widening: the same call site applied to (something derived from) its own earlier result -- `rest =
        # rest.split_first().1` in a loop -- is one abstract value, not an ever deeper term: reuse the inner application's
        # operands so that the loop reaches a fixed point
        for r in rs:
            inner = [x for x in values_subs(r) if VAL[x][0] == 'sym' and VAL[x][1] == 'app' and VAL[x][3] == site and
                     (VAL[x][2] == np or VAL[x][2].rsplit('.', 1)[0] == np)]
            if inner:
                rs = [a for a in VAL[inner[0]][4:] if a is not None]
                break
        if dt is None:
            return SYM('app', np, site, *rs)
        if dt['k'] == 'tuple':
            if not dt['elems']:
                return ZST()
            return AGG('tuple', 0, [SYM('app', '%s.%d' % (np, i), site, *rs) for i in range(len(dt['elems']))])
        # a crate-local plain struct of scalars (a named pair/triple) is the same thing with field names
        if dt['k'] == 'adt' and dt.get('local') and not dt.get('is_enum') and dt.get('variants') and 2 <= len(dt['variants'][0]['fields']) <= 4 \
                and all(I.T[f['ty']]['k'] in ('uint', 'int', 'bool') for f in dt['variants'][0]['fields']):
            return AGG(dt['adt'], 0, [SYM('app', '%s.%d' % (np, i), site, *rs) for i in range(len(dt['variants'][0]['fields']))])
        return SYM('app', np, site, *rs)

    # ----------------------------------------------------------- user callbacks

    def user_callback(self, I, st, fr, t, callee, cargs, cont):
        site = I.site_term(st, fr)
        rargs = [I.resolve(st, a) for a in cargs]
        rc = I.resolve(st, callee)
        cbev = {'k': 'usercb', 'callee': rc, 'args': rargs, 'raw_args': list(cargs),
                'dest_ty': I.T[t['dest_ty']]['s'] if cont[0] == 'mir' else ''}
        I.emit(st, fr, cbev)
        for i, a in enumerate(cargs):
            if a is None or not is_ptr(a):
                continue
            addr = VAL[a][1]
            old = I.load(st, addr)
            while old is not None and is_ptr(old):
                addr = VAL[old][1]
                old = I.load(st, addr)
            new = MUT(old if old is not None else SYM('undef', 'cb'), 'usercb', site, [rc])
            if new != old:
                I.store(st, addr, new)
        dt = I.T[t['dest_ty']] if cont[0] == 'mir' else None
        if dt is not None and dt['k'] == 'tuple' and not dt['elems']:
            val = ZST()
        else:
            val = SYM('cb', site, rc, *[r for r in rargs if r is not None])
            I.kill_facts_about(st, val)
        cbev['res'] = val
        return self.finish(I, st, fr, t, cont, val)

    # ------------------------------------------------------ native continuations

    def resume(self, I, st, callee_fr, name, data, rv):
        st.frames.pop()
        caller = st.frames[-1]
        I.emit(st, caller, {'k': 'leave', 'key': callee_fr.key})
        I.gc_facts(st, rv)
        return self.finish_native(I, st, caller, name, data, rv)

    def finish_native(self, I, st, fr, name, data, rv):
        dest, target = data[0], data[1]
        if name == 'wrap_some':
            return I.finish_call(st, fr, dest, target, SOME(rv))
        if name == 'wrap_ok':
            return I.finish_call(st, fr, dest, target, OK(rv))
        if name == 'wrap_err':
            return I.finish_call(st, fr, dest, target, ERR(rv))
        if name == 'id':
            return I.finish_call(st, fr, dest, target, rv)
        if name == 'const':
            return I.finish_call(st, fr, dest, target, data[2])
        if name == 'fetch_update':
            site = data[2]
            return I.finish_call(st, fr, dest, target, SYM('app', 'std::sync::atomic::Atomic::fetch_update', site, rv if rv is not None else ZST()))
        raise AssertionError(name)

    def call_closure(self, I, st, fr, t, f, cargs, cont_name, data):
        """Invoke callable value `f` with `cargs`, continuing with native cont."""
        tup = AGG('tuple', 0, cargs)
        I.clear_moves(st, fr, t['args'])
        return I.call_callable(st, fr, t, [f, tup], None, None, cont=('native', cont_name, data))

    # -------------------------------------------------------- specific models

    def m_try_result(self, I, st, fr, t, c, np, args, cont):
        """<std::result::Result as std::ops::Try>::branch"""
        v = args[0]
        idx = I.variant_of(st, v, RES_V, RESULT)
        p = I.variant_fields(st, v, idx, 1)[0]
        if idx == 0:
            out = AGG(CF, 0, [p])
        else:
            out = AGG(CF, 1, [ERR(p)])
        return self.finish(I, st, fr, t, cont, out)

    def m_try_option(self, I, st, fr, t, c, np, args, cont):
        """<std::option::Option as std::ops::Try>::branch"""
        v = args[0]
        idx = I.variant_of(st, v, OPT_V, OPTION)
        if idx == 1:
            out = AGG(CF, 0, [I.variant_fields(st, v, 1, 1)[0]])
        else:
            out = AGG(CF, 1, [NONE()])
        return self.finish(I, st, fr, t, cont, out)

    def m_from_residual(self, I, st, fr, t, c, np, args, cont):
        """<std::result::Result as std::ops::FromResidual>::from_residual"""
        v = args[0]
        idx = I.variant_of(st, v, RES_V, RESULT)
        if idx != 1:
            raise Infeasible()
        e = I.variant_fields(st, v, 1, 1)[0]
        return self.finish(I, st, fr, t, cont, ERR(e))

    def m_from_residual_opt(self, I, st, fr, t, c, np, args, cont):
        """<std::option::Option as std::ops::FromResidual>::from_residual"""
        return self.finish(I, st, fr, t, cont, NONE())

    def _pointee(self, I, st, a):
        """(addr, value) of the object a reference argument designates."""
        p = I.peel(st, a)
        if p is None:
            raise Infeasible()
        if is_ptr(p):
            addr = VAL[p][1]
        else:
            addr = ('sroot', p, ())
        return addr, I.load(st, addr)

    def m_is_ok(self, I, st, fr, t, c, np, args, cont):
        """std::result::Result::is_ok|std::result::Result::is_err"""
        _, v = self._pointee(I, st, args[0])
        idx = I.variant_of(st, v, RES_V, RESULT)
        r = (idx == 0) if np.endswith('is_ok') else (idx == 1)
        if idx == 1:
            I.emit(st, fr, {'k': 'tested', 'val': v, 'how': np})
        return self.finish(I, st, fr, t, cont, INT(int(r)))

    def m_is_some(self, I, st, fr, t, c, np, args, cont):
        """std::option::Option::is_some|std::option::Option::is_none"""
        _, v = self._pointee(I, st, args[0])
        idx = I.variant_of(st, v, OPT_V, OPTION)
        r = (idx == 1) if np.endswith('is_some') else (idx == 0)
        return self.finish(I, st, fr, t, cont, INT(int(r)))

    def m_result_ok(self, I, st, fr, t, c, np, args, cont):
        """std::result::Result::ok"""
        v = args[0]
        idx = I.variant_of(st, v, RES_V, RESULT)
        if idx == 0:
            return self.finish(I, st, fr, t, cont, SOME(I.variant_fields(st, v, 0, 1)[0]))
        I.emit(st, fr, {'k': 'discard_err', 'val': I.variant_fields(st, v, 1, 1)[0], 'how': np})
        return self.finish(I, st, fr, t, cont, NONE())

    def m_result_err(self, I, st, fr, t, c, np, args, cont):
        """std::result::Result::err"""
        v = args[0]
        idx = I.variant_of(st, v, RES_V, RESULT)
        if idx == 1:
            return self.finish(I, st, fr, t, cont, SOME(I.variant_fields(st, v, 1, 1)[0]))
        return self.finish(I, st, fr, t, cont, NONE())

    def m_result_expect(self, I, st, fr, t, c, np, args, cont):
        """std::result::Result::expect|std::result::Result::unwrap"""
        v = args[0]
        idx = I.variant_of(st, v, RES_V, RESULT)
        if idx == 0:
            return self.finish(I, st, fr, t, cont, I.variant_fields(st, v, 0, 1)[0])
        msg = VAL[args[1]][1] if len(args) > 1 and args[1] is not None and VAL[args[1]][0] == 'str' else ''
        return [(None, I.mkev(st, fr, {'k': 'panic', 'why': np, 'on': I.resolve(st, v), 'msg': msg}))]

    def m_option_expect(self, I, st, fr, t, c, np, args, cont):
        """std::option::Option::expect|std::option::Option::unwrap"""
        v = args[0]
        idx = I.variant_of(st, v, OPT_V, OPTION)
        if idx == 1:
            return self.finish(I, st, fr, t, cont, I.variant_fields(st, v, 1, 1)[0])
        msg = VAL[args[1]][1] if len(args) > 1 and args[1] is not None and VAL[args[1]][0] == 'str' else ''
        return [(None, I.mkev(st, fr, {'k': 'panic', 'why': np, 'on': I.resolve(st, v), 'msg': msg}))]

    def m_option_unwrap_or(self, I, st, fr, t, c, np, args, cont):
        """std::option::Option::unwrap_or"""
        v = args[0]
        idx = I.variant_of(st, v, OPT_V, OPTION)
        if idx == 1:
            return self.finish(I, st, fr, t, cont, I.variant_fields(st, v, 1, 1)[0])
        return self.finish(I, st, fr, t, cont, args[1])

    def m_option_as_ref(self, I, st, fr, t, c, np, args, cont):
        """std::option::Option::as_ref|std::option::Option::as_mut|std::option::Option::as_deref"""
        addr, v = self._pointee(I, st, args[0])
        idx = I.variant_of(st, v, OPT_V, OPTION)
        if idx == 0:
            return self.finish(I, st, fr, t, cont, NONE())
        p = PTR((addr[0], addr[1], addr[2] + (('dc', 1), ('f', 0))))
        return self.finish(I, st, fr, t, cont, SOME(p))

    def m_result_as_ref(self, I, st, fr, t, c, np, args, cont):
        """std::result::Result::as_ref|std::result::Result::as_mut"""
        addr, v = self._pointee(I, st, args[0])
        idx = I.variant_of(st, v, RES_V, RESULT)
        p = PTR((addr[0], addr[1], addr[2] + (('dc', idx), ('f', 0))))
        return self.finish(I, st, fr, t, cont, AGG(RESULT, idx, [p]))

    def m_option_map(self, I, st, fr, t, c, np, args, cont):
        """std::option::Option::map"""
        v = args[0]
        idx = I.variant_of(st, v, OPT_V, OPTION)
        if idx == 0:
            return self.finish(I, st, fr, t, cont, NONE())
        p = I.variant_fields(st, v, 1, 1)[0]
        return self.call_closure(I, st, fr, t, args[1], [p], 'wrap_some', (cont[1], cont[2]))

    def m_option_and_then(self, I, st, fr, t, c, np, args, cont):
        """std::option::Option::and_then"""
        v = args[0]
        idx = I.variant_of(st, v, OPT_V, OPTION)
        if idx == 0:
            return self.finish(I, st, fr, t, cont, NONE())
        p = I.variant_fields(st, v, 1, 1)[0]
        return self.call_closure(I, st, fr, t, args[1], [p], 'id', (cont[1], cont[2]))

    def m_option_map_or(self, I, st, fr, t, c, np, args, cont):
        """std::option::Option::map_or|std::option::Option::is_some_and|std::option::Option::is_none_or"""
        v = args[0]
        idx = I.variant_of(st, v, OPT_V, OPTION)
        if idx == 0:
            if np.endswith('map_or'):
                return self.finish(I, st, fr, t, cont, args[1])
            return self.finish(I, st, fr, t, cont, INT(0 if np.endswith('is_some_and') else 1))
        p = I.variant_fields(st, v, 1, 1)[0]
        f = args[2] if np.endswith('map_or') else args[1]
        return self.call_closure(I, st, fr, t, f, [p], 'id', (cont[1], cont[2]))

    def m_option_map_or_else(self, I, st, fr, t, c, np, args, cont):
        """std::option::Option::map_or_else"""
        v = args[0]
        idx = I.variant_of(st, v, OPT_V, OPTION)
        if idx == 0:
            return self.call_closure(I, st, fr, t, args[1], [], 'id', (cont[1], cont[2]))
        return self.call_closure(I, st, fr, t, args[2], [I.variant_fields(st, v, 1, 1)[0]], 'id', (cont[1], cont[2]))

    def m_result_map_or(self, I, st, fr, t, c, np, args, cont):
        """std::result::Result::map_or|std::result::Result::is_ok_and|std::result::Result::is_err_and"""
        v = args[0]
        idx = I.variant_of(st, v, RES_V, RESULT)
        want = 1 if np.endswith('is_err_and') else 0
        if idx != want:
            if idx == 1:
                I.emit(st, fr, {'k': 'tested', 'val': v, 'how': np})
            if np.endswith('map_or'):
                I.emit(st, fr, {'k': 'discard_err', 'val': I.variant_fields(st, v, 1, 1)[0], 'how': np})
                return self.finish(I, st, fr, t, cont, args[1])
            return self.finish(I, st, fr, t, cont, INT(0))
        p = I.variant_fields(st, v, idx, 1)[0]
        f = args[2] if np.endswith('map_or') else args[1]
        return self.call_closure(I, st, fr, t, f, [p], 'id', (cont[1], cont[2]))

    def m_option_unwrap_or_else(self, I, st, fr, t, c, np, args, cont):
        """std::option::Option::unwrap_or_else|std::option::Option::or_else"""
        v = args[0]
        idx = I.variant_of(st, v, OPT_V, OPTION)
        if idx == 1:
            out = I.variant_fields(st, v, 1, 1)[0] if np.endswith('unwrap_or_else') else v
            return self.finish(I, st, fr, t, cont, out)
        return self.call_closure(I, st, fr, t, args[1], [], 'id', (cont[1], cont[2]))

    def m_result_map(self, I, st, fr, t, c, np, args, cont):
        """std::result::Result::map"""
        v = args[0]
        idx = I.variant_of(st, v, RES_V, RESULT)
        if idx == 1:
            return self.finish(I, st, fr, t, cont, ERR(I.variant_fields(st, v, 1, 1)[0]))
        return self.call_closure(I, st, fr, t, args[1], [I.variant_fields(st, v, 0, 1)[0]], 'wrap_ok', (cont[1], cont[2]))

    def m_result_map_err(self, I, st, fr, t, c, np, args, cont):
        """std::result::Result::map_err"""
        v = args[0]
        idx = I.variant_of(st, v, RES_V, RESULT)
        if idx == 0:
            return self.finish(I, st, fr, t, cont, OK(I.variant_fields(st, v, 0, 1)[0]))
        return self.call_closure(I, st, fr, t, args[1], [I.variant_fields(st, v, 1, 1)[0]], 'wrap_err', (cont[1], cont[2]))

    def m_result_and_then(self, I, st, fr, t, c, np, args, cont):
        """std::result::Result::and_then"""
        v = args[0]
        idx = I.variant_of(st, v, RES_V, RESULT)
        if idx == 1:
            return self.finish(I, st, fr, t, cont, ERR(I.variant_fields(st, v, 1, 1)[0]))
        return self.call_closure(I, st, fr, t, args[1], [I.variant_fields(st, v, 0, 1)[0]], 'id', (cont[1], cont[2]))

    def m_result_or_else(self, I, st, fr, t, c, np, args, cont):
        """std::result::Result::or_else|std::result::Result::unwrap_or_else"""
        v = args[0]
        idx = I.variant_of(st, v, RES_V, RESULT)
        if idx == 0:
            out = v if np.endswith('or_else') and not np.endswith('unwrap_or_else') else I.variant_fields(st, v, 0, 1)[0]
            return self.finish(I, st, fr, t, cont, out)
        I.emit(st, fr, {'k': 'tested', 'val': v, 'how': np})
        return self.call_closure(I, st, fr, t, args[1], [I.variant_fields(st, v, 1, 1)[0]], 'id', (cont[1], cont[2]))

    def m_result_unwrap_or(self, I, st, fr, t, c, np, args, cont):
        """std::result::Result::unwrap_or|std::result::Result::unwrap_or_default"""
        v = args[0]
        idx = I.variant_of(st, v, RES_V, RESULT)
        if idx == 0:
            return self.finish(I, st, fr, t, cont, I.variant_fields(st, v, 0, 1)[0])
        I.emit(st, fr, {'k': 'discard_err', 'val': I.variant_fields(st, v, 1, 1)[0], 'how': np})
        return self.finish(I, st, fr, t, cont, args[1] if len(args) > 1 else SYM('default', np))

    def m_default(self, I, st, fr, t, c, np, args, cont):
        """std::default::Default::default|<std::option::Option as std::default::Default>::default|<bool as std::default::Default>::default"""
        ty = I.T[I.resolve_ty(fr, t['dest_ty'])] if cont[0] == 'mir' and t.get('dest_ty') is not None else None
        if ty is not None:
            if ty.get('adt') == 'std::option::Option':
                return self.finish(I, st, fr, t, cont, NONE())
            if ty['k'] in ('bool', 'int', 'uint'):
                return self.finish(I, st, fr, t, cont, INT(0))
            if ty['k'] == 'tuple' and not ty.get('elems'):
                return self.finish(I, st, fr, t, cont, ZST())
        return self.generic(I, st, fr, t, np, args, cont, c)

    def m_option_flatten(self, I, st, fr, t, c, np, args, cont):
        """std::option::Option::flatten"""
        v = args[0]
        idx = I.variant_of(st, v, OPT_V, OPTION)
        if idx == 0:
            return self.finish(I, st, fr, t, cont, NONE())
        return self.finish(I, st, fr, t, cont, I.variant_fields(st, v, 1, 1)[0])

    def m_option_ok_or(self, I, st, fr, t, c, np, args, cont):
        """std::option::Option::ok_or"""
        v = args[0]
        idx = I.variant_of(st, v, OPT_V, OPTION)
        if idx == 1:
            return self.finish(I, st, fr, t, cont, OK(I.variant_fields(st, v, 1, 1)[0]))
        return self.finish(I, st, fr, t, cont, ERR(args[1]))

    def m_option_ok_or_else(self, I, st, fr, t, c, np, args, cont):
        """std::option::Option::ok_or_else"""
        v = args[0]
        idx = I.variant_of(st, v, OPT_V, OPTION)
        if idx == 1:
            return self.finish(I, st, fr, t, cont, OK(I.variant_fields(st, v, 1, 1)[0]))
        return self.call_closure(I, st, fr, t, args[1], [], 'wrap_err', (cont[1], cont[2]))

    def m_option_or(self, I, st, fr, t, c, np, args, cont):
        """std::option::Option::or|std::option::Option::and"""
        v = args[0]
        idx = I.variant_of(st, v, OPT_V, OPTION)
        if np.endswith('::or'):
            return self.finish(I, st, fr, t, cont, v if idx == 1 else args[1])
        return self.finish(I, st, fr, t, cont, args[1] if idx == 1 else NONE())

    def m_option_filter(self, I, st, fr, t, c, np, args, cont):
        """std::option::Option::unwrap_or_default"""
        v = args[0]
        idx = I.variant_of(st, v, OPT_V, OPTION)
        if idx == 1:
            return self.finish(I, st, fr, t, cont, I.variant_fields(st, v, 1, 1)[0])
        return self.finish(I, st, fr, t, cont, SYM('default', np))

    def m_result_and(self, I, st, fr, t, c, np, args, cont):
        """std::result::Result::and|std::result::Result::or"""
        v = args[0]
        idx = I.variant_of(st, v, RES_V, RESULT)
        if np.endswith('::and'):
            return self.finish(I, st, fr, t, cont, args[1] if idx == 0 else v)
        if idx == 1:
            I.emit(st, fr, {'k': 'discard_err', 'val': I.variant_fields(st, v, 1, 1)[0], 'how': np})
        return self.finish(I, st, fr, t, cont, v if idx == 0 else args[1])

    def m_result_map_or_else(self, I, st, fr, t, c, np, args, cont):
        """std::result::Result::map_or_else"""
        v = args[0]
        idx = I.variant_of(st, v, RES_V, RESULT)
        if idx == 0:
            return self.call_closure(I, st, fr, t, args[2], [I.variant_fields(st, v, 0, 1)[0]], 'id', (cont[1], cont[2]))
        I.emit(st, fr, {'k': 'tested', 'val': v, 'how': np})
        return self.call_closure(I, st, fr, t, args[1], [I.variant_fields(st, v, 1, 1)[0]], 'id', (cont[1], cont[2]))

    def m_bool_then(self, I, st, fr, t, c, np, args, cont):
        """core::bool::then_some|std::bool::then_some|bool::then_some|core::bool::then|std::bool::then|bool::then"""
        b = I.resolve(st, args[0])
        lazy = np.endswith('::then')
        if b is None:
            return self.generic(I, st, fr, t, np, args, cont, c)
        if VAL[b][0] == 'int':
            truth = VAL[b][1] != '0'
        else:
            # `cond.then(|| ..)` is `if cond { Some(..) } else { None }`: a branch on cond, like a switch
            f = st.facts.get(('sw', b))
            if f is None:
                raise NeedFork(('sw', b), [(0, {'k': 'branch', 'val': b, 'eq': 0}), (1, {'k': 'branch', 'val': b, 'eq': 1})])
            truth = (f == 1)
        if not truth:
            return self.finish(I, st, fr, t, cont, NONE())
        if lazy:
            return self.call_closure(I, st, fr, t, args[1], [], 'wrap_some', (cont[1], cont[2]))
        return self.finish(I, st, fr, t, cont, SOME(args[1]))

    def m_ord_max(self, I, st, fr, t, c, np, args, cont):
        """std::cmp::Ord::max|std::cmp::Ord::min|std::cmp::max|std::cmp::min"""
        a, b = I.resolve(st, args[0]), I.resolve(st, args[1])
        if a is None or b is None:
            return self.generic(I, st, fr, t, np, args, cont, c)
        ia, ib = VAL[a][0] == 'int', VAL[b][0] == 'int'
        ismax = np.endswith('max')
        if ia and ib:
            x, y = int(VAL[a][1]), int(VAL[b][1])
            return self.finish(I, st, fr, t, cont, a if ((x > y) == ismax or x == y) else b)
        if not (ia or ib):
            return self.generic(I, st, fr, t, np, args, cont, c)
        # clamping against a constant: `n.max(2)` is `if n < 2 { 2 } else { n }` -- decided by forking on the comparison
        cnd = SYM('cmp', 'Lt', a, b)
        f = st.facts.get(('sw', cnd))
        if f is None:
            raise NeedFork(('sw', cnd), [(0, {'k': 'branch', 'val': cnd, 'eq': 0}), (1, {'k': 'branch', 'val': cnd, 'eq': 1})])
        lt = (f == 1)
        return self.finish(I, st, fr, t, cont, (b if lt else a) if ismax else (a if lt else b))

    def m_option_transpose(self, I, st, fr, t, c, np, args, cont):
        """std::option::Option::transpose"""
        v = args[0]
        idx = I.variant_of(st, v, OPT_V, OPTION)
        if idx == 0:
            return self.finish(I, st, fr, t, cont, OK(NONE()))
        r = I.variant_fields(st, v, 1, 1)[0]
        j = I.variant_of(st, r, RES_V, RESULT)
        p = I.variant_fields(st, r, j, 1)[0]
        return self.finish(I, st, fr, t, cont, OK(SOME(p)) if j == 0 else ERR(p))

    def m_result_transpose(self, I, st, fr, t, c, np, args, cont):
        """std::result::Result::transpose"""
        v = args[0]
        idx = I.variant_of(st, v, RES_V, RESULT)
        p = I.variant_fields(st, v, idx, 1)[0]
        if idx == 1:
            return self.finish(I, st, fr, t, cont, SOME(ERR(p)))
        j = I.variant_of(st, p, OPT_V, OPTION)
        if j == 0:
            return self.finish(I, st, fr, t, cont, NONE())
        return self.finish(I, st, fr, t, cont, SOME(OK(I.variant_fields(st, p, 1, 1)[0])))

    def m_option_insert(self, I, st, fr, t, c, np, args, cont):
        """std::option::Option::insert|std::option::Option::replace"""
        addr, old = self._pointee(I, st, args[0])
        I.store(st, addr, SOME(args[1]))
        if np.endswith('replace'):
            return self.finish(I, st, fr, t, cont, old if old is not None else NONE())
        return self.finish(I, st, fr, t, cont, PTR((addr[0], addr[1], addr[2] + (('dc', 1), ('f', 0)))))

    def m_option_take(self, I, st, fr, t, c, np, args, cont):
        """std::option::Option::take"""
        addr, old = self._pointee(I, st, args[0])
        I.store(st, addr, NONE())
        return self.finish(I, st, fr, t, cont, old if old is not None else NONE())

    def m_clone_from(self, I, st, fr, t, c, np, args, cont):
        """<std::option::Option as std::clone::Clone>::clone_from|std::clone::Clone::clone_from"""
        addr, _ = self._pointee(I, st, args[0])
        _, src = self._pointee(I, st, args[1])
        I.store(st, addr, src)
        return self.finish(I, st, fr, t, cont, ZST())

    def m_mem_take(self, I, st, fr, t, c, np, args, cont):
        """std::mem::take"""
        addr, old = self._pointee(I, st, args[0])
        I.store(st, addr, SYM('default', c.get('gargs', ['?'])[0] if c else '?'))
        return self.finish(I, st, fr, t, cont, old)

    def m_mem_replace(self, I, st, fr, t, c, np, args, cont):
        """std::mem::replace"""
        addr, old = self._pointee(I, st, args[0])
        I.store(st, addr, args[1])
        return self.finish(I, st, fr, t, cont, old)

    def m_arc_deref(self, I, st, fr, t, c, np, args, cont):
        """<std::sync::Arc as std::ops::Deref>::deref|<std::sync::Arc as std::convert::AsRef>::as_ref|<std::boxed::Box as std::ops::Deref>::deref|<std::boxed::Box as std::convert::AsRef>::as_ref"""
        addr, v = self._pointee(I, st, args[0])
        # Arc::new(x)/Box::new(x) are modelled as transparent, so the pointee *is* the payload
        return self.finish(I, st, fr, t, cont, PTR(addr))

    def m_pathbuf_push(self, I, st, fr, t, c, np, args, cont):
        """std::path::PathBuf::push"""
        addr, old = self._pointee(I, st, args[0])
        comp = I.resolve(st, I.own(st, args[1]))
        I.emit(st, fr, {'k': 'ext', 'path': np, 'args': [I.resolve(st, old), comp], 'raw_args': list(args), 'gargs': [], 'dest_ty': '()'})
        I.store(st, addr, self.path_push(old if old is not None else SYM('undef', 'push'), comp))
        return self.finish(I, st, fr, t, cont, ZST())

    def m_path_join(self, I, st, fr, t, c, np, args, cont):
        """std::path::Path::join|std::path::PathBuf::join"""
        _, base = self._pointee(I, st, args[0])
        base = I.resolve(st, base)
        comp = I.resolve(st, I.own(st, args[1]))
        if base is None or comp is None:
            return self.generic(I, st, fr, t, np, args, cont, c)
        # `x.join(c)` is `{ let mut p = x.to_path_buf(); p.push(c); p }`: same value as the push idiom
        I.emit(st, fr, {'k': 'ext', 'path': 'std::path::PathBuf::push', 'args': [base, comp], 'raw_args': list(args), 'gargs': [], 'dest_ty': '()'})
        return self.finish(I, st, fr, t, cont, self.path_push(base, comp))

    @staticmethod
    def path_push(old, comp):
        """push with widening: a chain of more than three pushes (a buffer that grows in a loop because a pop
        is missing) collapses to root + set of components, so loops converge."""
        site0 = SITE('', 0)
        # `p.parent().unwrap().join(x)` with p = d/y is d/x (the sibling): same value as `pop(); push(x)`
        to = VAL[old]
        while to[0] == 'sym' and to[1] == 'ld' and VAL[to[2]][0] == 'sym' and VAL[to[2]][1] == 'app' and VAL[to[2]][2] == 'std::path::Path::parent':
            old = to[2]             # `&Path` returned by parent(): look through the reference
            to = VAL[old]
        if to[0] == 'sym' and to[1] == 'app' and to[2] == 'std::path::Path::parent' and len(to) > 4:
            inner = VAL[to[4]]
            if inner[0] == 'sym' and inner[1] == 'app' and inner[2] == 'path.push' and len(inner) > 5:
                old = inner[4]
        chain = []
        v = old
        while VAL[v][0] == 'sym' and VAL[v][1] == 'app' and VAL[v][2] == 'path.push' and len(VAL[v]) > 5:
            chain.append(VAL[v][5])
            v = VAL[v][4]
        tv = VAL[v]
        if tv[0] == 'sym' and tv[1] == 'app' and tv[2] == 'path.multi':
            comps = set(tv[5:]) | set(chain) | {comp}
            return SYM('app', 'path.multi', site0, tv[4], *sorted(c for c in comps if c is not None))
        if len(chain) >= 3 or comp in chain:
            comps = set(chain) | {comp}
            return SYM('app', 'path.multi', site0, v, *sorted(c for c in comps if c is not None))
        return SYM('app', 'path.push', site0, old, comp)

    def m_pathbuf_pop(self, I, st, fr, t, c, np, args, cont):
        """std::path::PathBuf::pop"""
        addr, old = self._pointee(I, st, args[0])
        new = None
        if old is not None:
            ot = VAL[old]
            if ot[0] == 'sym' and ot[1] == 'app' and ot[2] == 'path.push':
                new = ot[4]
            elif ot[0] == 'sym' and ot[1] == 'app' and ot[2] == 'path.multi':
                new = old  # root + any number of the components: closed under pop (up to the root)
        if new is None:
            new = SYM('app', 'path.pop', SITE('', 0), old if old is not None else SYM('undef', 'pop'))
        I.store(st, addr, new)
        return self.finish(I, st, fr, t, cont, SYM('app', np, SITE(fr.key, fr.bb)))

    def m_path_parent(self, I, st, fr, t, c, np, args, cont):
        """std::path::Path::parent"""
        _, v = self._pointee(I, st, args[0])
        v = I.resolve(st, v)
        if v is not None and VAL[v][0] == 'sym' and VAL[v][1] == 'app' and VAL[v][2] == 'path.push':
            # a path that was just pushed onto always has a parent
            return self.finish(I, st, fr, t, cont, SOME(SYM('app', 'std::path::Path::parent', SITE('', 0), v)))
        return self.generic(I, st, fr, t, np, args, cont, c)

    def m_localkey_with(self, I, st, fr, t, c, np, args, cont):
        """std::thread::LocalKey::with"""
        key = I.resolve(st, args[0])
        cell = SYM('tlcell', key if key is not None else ZST())
        return self.call_closure(I, st, fr, t, args[1], [cell], 'id', (cont[1], cont[2]))

    def m_resize_with(self, I, st, fr, t, c, np, args, cont):
        """std::vec::Vec::resize_with"""
        # the filler closure is pure in this crate; run it once for its events
        return self.call_closure(I, st, fr, t, args[2], [], 'const', (cont[1], cont[2], ZST()))

    def m_fetch_update(self, I, st, fr, t, c, np, args, cont):
        """std::sync::atomic::Atomic::fetch_update"""
        site = SITE(fr.key, fr.bb)
        cur = SYM('app', 'std::sync::atomic::Atomic::load', site, I.resolve(st, args[0]))
        return self.call_closure(I, st, fr, t, args[3], [cur], 'fetch_update', (cont[1], cont[2], site))

    def m_sort_by_cached_key(self, I, st, fr, t, c, np, args, cont):
        """std::slice::sort_by_cached_key|std::slice::sort_by_key"""
        addr, old = self._pointee(I, st, args[0])
        site = SITE(fr.key, fr.bb)
        elem = PTR(('cell', ('sortelem', fr.key, fr.bb), ()))
        st.heap[('cell', ('sortelem', fr.key, fr.bb))] = SYM('fld', I.resolve(st, old) if old is not None else SYM('undef', 'sort'), 'idx')
        I.emit(st, fr, {'k': 'ext', 'path': np, 'args': [I.resolve(st, old)], 'raw_args': list(args), 'gargs': [], 'dest_ty': '()'})
        if old is not None:
            I.store(st, addr, SYM('app', 'sorted', site, I.resolve(st, old)))
        return self.call_closure(I, st, fr, t, args[1], [elem], 'const', (cont[1], cont[2], ZST()))

    def m_drop(self, I, st, fr, t, c, np, args, cont):
        """std::mem::drop"""
        v = args[0]
        if v is not None:
            I.emit(st, fr, {'k': 'drop', 'val': I.resolve(st, v), 'ty': (c.get('gargs') or ['?'])[0] if c else '?', 'explicit': True})
        return self.finish(I, st, fr, t, cont, ZST())

    def m_io_error_new(self, I, st, fr, t, c, np, args, cont):
        """std::io::Error::new"""
        kind = I.resolve(st, args[0])
        return self.finish(I, st, fr, t, cont, SYM('ioerr', kind if kind is not None else ZST()))

    def m_io_error_kind(self, I, st, fr, t, c, np, args, cont):
        """std::io::Error::kind"""
        _, e = self._pointee(I, st, args[0])
        e = I.resolve(st, e)
        if e is not None and VAL[e][0] == 'sym' and VAL[e][1] == 'ioerr':
            return self.finish(I, st, fr, t, cont, VAL[e][2])
        return self.finish(I, st, fr, t, cont, SYM('app', np, SITE('', 0), e if e is not None else ZST()))

    def m_errorkind_eq(self, I, st, fr, t, c, np, args, cont):
        """<std::io::ErrorKind as std::cmp::PartialEq>::eq"""
        a = I.resolve(st, args[0])
        b = I.resolve(st, args[1])
        if a is not None and b is not None and is_agg(a) and is_agg(b):
            return self.finish(I, st, fr, t, cont, INT(int(agg_variant(a) == agg_variant(b))))
        return self.finish(I, st, fr, t, cont, SYM('cmp', 'Eq', a if a is not None else ZST(), b if b is not None else ZST()))

    def m_cmp(self, I, st, fr, t, c, np, args, cont):
        """std::cmp::PartialOrd::lt|std::cmp::PartialOrd::le|std::cmp::PartialOrd::gt|std::cmp::PartialOrd::ge|std::cmp::PartialEq::eq|std::cmp::PartialEq::ne|<std::option::Option as std::cmp::PartialEq>::eq|<std::option::Option as std::cmp::PartialEq>::ne|<std::option::Option as std::cmp::PartialOrd>::lt|<std::option::Option as std::cmp::PartialOrd>::le|<std::option::Option as std::cmp::PartialOrd>::gt|<std::option::Option as std::cmp::PartialOrd>::ge"""
        op = {'lt': 'Lt', 'le': 'Le', 'gt': 'Gt', 'ge': 'Ge', 'eq': 'Eq', 'ne': 'Ne'}[np.rsplit('::', 1)[1]]
        a = I.resolve(st, args[0])
        b = I.resolve(st, args[1])
        return self.finish(I, st, fr, t, cont, SYM('cmp', op, a if a is not None else ZST(), b if b is not None else ZST()))

    def m_into_parts(self, I, st, fr, t, c, np, args, cont):
        """tempfile::NamedTempFile::into_parts"""
        v = I.resolve(st, args[0])
        site = SITE(fr.key, fr.bb)
        I.emit(st, fr, {'k': 'ext', 'path': np, 'args': [v], 'raw_args': list(args), 'gargs': [], 'dest_ty': ''})
        return self.finish(I, st, fr, t, cont, AGG('tuple', 0, [SYM('fld', v, 'file'), SYM('fld', v, 'path')]))
