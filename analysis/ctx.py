"""Analysis context: facts, call graph, role discovery, cached explorations."""
import time

import prims
import values
from callgraph import CallGraph
from engine import Interp, EngineLimit
from graph import GQ, mentions
from models import Models, norm_path
from values import VAL, SYM, INT


class RoleError(Exception):
    """A structural anchor the rules depend on could not be found (fail closed)."""


class LazyRoles(dict):
    """role -> body key; a role that could not be resolved raises RoleError only when a rule asks for it"""

    def __init__(self):
        super().__init__()
        self.errors = {}

    def __missing__(self, role):
        raise RoleError(self.errors.get(role, 'cache-directory method role %s not found' % role))


class Ctx:
    def __init__(self, facts, tier='quick', meta=None):
        self.facts = facts
        self.T = facts['types']
        self.B = facts['bodies']
        self.traits = facts['traits']
        self.tier = tier
        self.meta = meta or {}
        self.cg = CallGraph(facts)
        self.pure = self.cg.pure_bodies()
        # trivial free functions (one block, no calls) are cheaper and more precise inlined than summarised
        for k in list(self.pure):
            b = self.B[k]
            if b['def_kind'] == 'Closure':
                self.pure.discard(k)     # closures are part of their parent's logic: always inlined
                continue
            if (b['def_kind'] == 'Fn' or (b['def_kind'] == 'AssocFn' and not b.get('impl_trait'))) and \
                    len([x for x in b['blocks'] if not x['cleanup']]) == 1 and all(x['term']['k'] != 'call' for x in b['blocks']):
                self.pure.discard(k)        # (inherent one-block constructors / getters included; trait accessors are roles)
            # argument-less helpers name a constant or a "now - C" style expression: what they compute matters to the
            # rules (age limits, permission bits), and there is nothing to gain from summarising them
            if b['def_kind'] == 'Fn' and b['arg_count'] == 0 and not [c for c in self.cg.local_edges.get(k, ()) if c in self.B and self.B[c]['def_kind'] != 'Closure']:
                self.pure.discard(k)
        # crate-local implementations of std's conversion/projection traits (`impl AsRef<Path> for Ready`) are projections
        for k in list(self.pure):
            it = self.B[k].get('impl_trait')
            if isinstance(it, str) and it.split('<')[0] in ('std::convert::AsRef', 'std::convert::AsMut', 'std::ops::Deref', 'std::ops::DerefMut',
                                                             'std::borrow::Borrow', 'std::convert::From', 'std::convert::Into'):
                self.pure.discard(k)
        # small effect-free inherent methods of crate-local value types (`scan.finish()`, `stamps.accessed()`): projections
        # and tiny state machines whose result the rules need to see through
        for k in list(self.pure):
            b = self.B[k]
            if b['def_kind'] == 'AssocFn' and not b.get('impl_trait') and b['arg_count'] >= 1 and \
                    len([x for x in b['blocks'] if not x['cleanup']]) <= 6 and not self.cg.local_edges.get(k):
                t1 = self.T[b['locals'][1]['ty']]
                if t1['k'] == 'ref':
                    t1 = self.T[t1['to']]
                if t1['k'] == 'adt' and t1.get('local') and b['locals'][1].get('name') == 'self':
                    self.pure.discard(k)
        # time arithmetic helpers: small pure functions over FileTime / scalars only (`unaccessed_times(now)`)
        for k in list(self.pure):
            b = self.B[k]
            if b['def_kind'] in ('Fn', 'AssocFn') and not b.get('impl_trait') and b['arg_count'] >= 1 and \
                    len([x for x in b['blocks'] if not x['cleanup']]) <= 8 and not self.cg.local_edges.get(k) and \
                    any(self.T[b['locals'][i]['ty']]['s'] == 'filetime::FileTime' for i in range(1, b['arg_count'] + 1)) and \
                    all(self.T[b['locals'][i]['ty']]['s'] == 'filetime::FileTime' or self.T[b['locals'][i]['ty']]['k'] in ('bool', 'int', 'uint')
                        for i in range(1, b['arg_count'] + 1)):
                self.pure.discard(k)
        # provided (default) methods of the crate's own traits are composition logic over the required accessors (e.g.
        # `entry_path(name)` = validate + base_dir + push), not roles: always looked through
        for tr in self.traits.values():
            for m in tr['methods']:
                if m.get('key'):
                    self.pure.discard(m['key'])
        # argument-less inherent constructors/associated functions (`TempSweep::threshold()`) like argument-less free fns
        for k in list(self.pure):
            b = self.B[k]
            if b['def_kind'] == 'AssocFn' and not b.get('impl_trait') and b['arg_count'] == 0 and \
                    not [c for c in self.cg.local_edges.get(k, ()) if c in self.B and self.B[c]['def_kind'] != 'Closure']:
                self.pure.discard(k)
        # scalar conversions (bool -> two-variant enum, index -> index, ...): tiny, and their result usually steers a
        # branch the rules need to follow (e.g. a sync policy derived from the auto_sync flag)
        def scalar(tyid):
            t = self.T[tyid]
            if t['k'] in ('bool', 'int', 'uint', 'char'):
                return True
            if t['k'] == 'adt' and t.get('local') and t.get('is_enum') and t.get('variants') and all(not v['fields'] for v in t['variants']):
                return True
            return False
        for k in list(self.pure):
            b = self.B[k]
            if b['def_kind'] in ('Fn', 'AssocFn') and not b.get('impl_trait') and b['arg_count'] >= 1 and \
                    len([x for x in b['blocks'] if not x['cleanup']]) <= 8 and not self.cg.local_edges.get(k) and \
                    all(scalar(b['locals'][i]['ty']) for i in range(0, b['arg_count'] + 1)):
                self.pure.discard(k)
        # predicates over a directory entry / its metadata / its name ("is this a cached file?"): the candidate-selection
        # rules (C07 G3, C16 R16.5, C17 R17.2) must see which tests they make
        for k in list(self.pure):
            b = self.B[k]
            if b['def_kind'] not in ('Fn', 'AssocFn') or b.get('impl_trait'):
                continue
            about_entry = any(x in self.T[b['locals'][i]['ty']]['s'] for i in range(1, b['arg_count'] + 1)
                              for x in ('std::fs::DirEntry', 'std::fs::Metadata', 'std::ffi::OsStr', 'std::fs::FileType'))
            small = len([x for x in b['blocks'] if not x['cleanup']]) <= 4 and not self.cg.local_edges.get(k)
            rt = self.T[b['locals'][0]['ty']]
            if rt['k'] == 'bool' and about_entry:
                self.pure.discard(k)
            elif about_entry and rt['k'] == 'adt' and rt.get('local') and rt.get('is_enum') and rt.get('variants') and \
                    all(not v['fields'] for v in rt['variants']) and not self.cg.local_edges.get(k):
                self.pure.discard(k)        # a classifier: entry -> field-less crate-local enum (`EntryKind::of(&entry, &meta)`)
            elif about_entry and small:
                self.pure.discard(k)        # e.g. a small value type built from a Metadata (its times)
            elif self.T[b['locals'][0]['ty']]['k'] == 'bool' and small and b['arg_count'] == 1 and \
                    self.T[b['locals'][1]['ty']]['k'] == 'ref' and self.T[self.T[b['locals'][1]['ty']]['to']].get('local'):
                self.pure.discard(k)        # a small predicate over the fields of a crate-local value (`stamps.accessed()`)
        # state transformers: an effect-free helper that writes through a `&mut` parameter (`listing.count_entry()`).
        # Summarising it would havoc the whole object at every call; its few assignments are cheaper and exact
        for k in list(self.pure):
            b = self.B[k]
            if b['def_kind'] in ('Fn', 'AssocFn') and not b.get('impl_trait') and \
                    len([x for x in b['blocks'] if not x['cleanup']]) <= 12 and \
                    any(self.T[b['locals'][i]['ty']]['k'] == 'ref' and self.T[b['locals'][i]['ty']].get('mut') for i in range(1, b['arg_count'] + 1)):
                self.pure.discard(k)
        # outcome transformers: a pure helper that receives a Result (or an io::Error by value) decides what happens
        # to an error -- classified as absence, mapped, propagated.  The error-discipline rules must see that decision,
        # so such helpers are always looked through (the absence classifier itself takes `&io::Error` and stays a unit)
        for k in list(self.pure):
            b = self.B[k]
            if b['def_kind'] not in ('Fn', 'AssocFn'):
                continue
            for i in range(1, b['arg_count'] + 1):
                pt = self.T[b['locals'][i]['ty']]
                if pt.get('adt') in ('std::result::Result', 'std::io::Error'):
                    self.pure.discard(k)
                    break
        # field getters (`fn x(&self) -> &T / Option<&T>`, a few blocks, no local callee): looked through, so that what
        # is known about the field is known about the getter's result
        for k in list(self.pure) * 3:        # (three rounds: a getter may be built on another getter)
            if k not in self.pure:
                continue
            b = self.B[k]
            callees = [c for c in self.cg.local_edges.get(k, ()) if self.B[c]['def_kind'] != 'Closure' and c in self.pure]
            if b['def_kind'] == 'AssocFn' and not b.get('impl_trait') and b['arg_count'] == 1 and \
                    len([x for x in b['blocks'] if not x['cleanup']]) <= 8 and not callees:
                a = self.T[b['locals'][1]['ty']]
                r = self.T[b['locals'][0]['ty']]
                # the result borrows from self: &T, Option<&T>, Result<&T, _>
                borrows = r['k'] == 'ref' or (r.get('adt') in ('std::option::Option', 'std::result::Result') and '&' in r['s'])
                if a['k'] == 'ref' and borrows:
                    self.pure.discard(k)
        self._graphs = {}
        self.blind_spots = set()
        self._roles = {}
        self.by_path = {}
        for k, b in self.B.items():
            self.by_path.setdefault(b['path'], k)
        self.stats = {'explorations': 0, 'nodes': 0, 'edges': 0, 'explore_s': 0.0}

    # ---------------------------------------------------------------- lookup

    def key_of(self, path):
        k = self.by_path.get(path)
        if k is None:
            raise RoleError('public item %s not found' % path)
        return k

    # internal helpers: looked up by today's name first; when a rename or move makes the name disappear they are
    # rediscovered from their characteristic effect below the public operation that uses them
    HELPERS = {
        'raw_cache::insert_or_touch': ('put', {'publish_excl'}),
        'raw_cache::insert_or_update': ('set', {'publish_replace'}),
        'raw_cache::ensure_file_touched': ('get', {'meta_times_h'}),
        'raw_cache::touch': ('touch', {'meta_atime'}),
        'raw_cache::prune': ('maintain', {'list_dir', 'ns_remove_file', 'meta_times'}),
    }

    def helper(self, name):
        k = self.by_path.get(name)
        if k is not None:
            return k
        ck = ('helper', name)
        if ck in self._roles:
            return self._roles[ck]
        if name == 'second_chance::Update::<T>::new':
            k = self._find_planner()
        else:
            role, classes = self.HELPERS[name]
            m = self.cachedir_methods()
            roots = m[role] if isinstance(m[role], list) else [m[role]]
            k = self._deepest(roots, classes, name)
        self._roles[ck] = k
        return k

    def _deepest(self, roots, classes, what):
        """the named (non-closure) function below `roots` that reaches all of `classes` while none of its callees does"""
        cands = set()
        for r in roots:
            for k in self.cg.reach(r):
                if self.B[k]['def_kind'] in ('Fn', 'AssocFn') and k not in roots and classes <= self.cg.effects(k):
                    cands.add(k)
        deepest = [k for k in cands if not any(c != k and c in cands for c in self.cg.reach(k))]
        if len(deepest) != 1:
            raise RoleError('%s not found by name, and %d functions have its characteristic effect %s' % (what, len(deepest), sorted(classes)))
        return deepest[0]

    def _find_planner(self):
        """the pure generic function the pruner hands its candidates to: returns a crate-local ADT"""
        pr = self.helper('raw_cache::prune')
        cands = []
        for k in self.cg.local_edges.get(pr, ()):
            b = self.B[k]
            r = self.T[b['locals'][0]['ty']]
            if k in self.pure and b['def_kind'] in ('Fn', 'AssocFn') and r.get('adt') and not r['adt'].startswith(('std::', 'core::', 'alloc::')) and b['arg_count'] == 2:
                cands.append(k)
        if len(cands) != 1:
            raise RoleError('eviction planner not found by name, and %d pure two-argument callees of the pruner return a local type' % len(cands))
        return cands[0]

    def planner_adt(self):
        a = self.facts['adts'].get('second_chance::Update')
        if a is not None:
            return self.T[a['ty']]
        t = self.B[self.helper('second_chance::Update::<T>::new')].get('impl_self_ty')
        if t is None:
            raise RoleError('eviction plan type not found')
        t = self.T[t]
        a = self.facts['adts'].get(t.get('adt'))
        return self.T[a['ty']] if a else t

    def planner_entry_trait(self):
        tr = self.traits.get('second_chance::Entry')
        if tr:
            return tr
        used = set()
        for r in ('cachedir_trait', 'read_trait', 'write_trait'):
            try:
                used.add(self.role(r))
            except RoleError:
                pass
        rest = [n for n in self.traits if n not in used]
        if len(rest) != 1:
            raise RoleError('planner entry trait not found by name; %d other local traits' % len(rest))
        return self.traits[rest[0]]

    def public_fns(self):
        return [k for k, b in self.B.items() if b['public']]

    def ty(self, i):
        return self.T[i]

    def adt(self, path):
        a = self.facts['adts'].get(path)
        if a is None:
            raise RoleError('ADT %s not found' % path)
        return self.T[a['ty']]

    # ------------------------------------------------------------ exploration

    def explore(self, entry, mode='full', heap=None, facts=None, args=None, opaque='pure', precise=False, tag=None,
                max_nodes=600000, dyn_force=None):
        """mode 'full': inline everything effectful; 'layer': keep dyn calls of the
        write-side / read-side traits as abstract operations."""
        ck = (entry, mode, tag, opaque if isinstance(opaque, str) else tuple(sorted(opaque)), precise,
              tuple(sorted((dyn_force or {}).items())))
        if ck in self._graphs:
            return self._graphs[ck]
        I = Interp(self.facts, Models(), max_nodes=max_nodes)
        if opaque == 'pure':
            I.opaque = set(self.pure)
        elif opaque == 'none':
            I.opaque = set()
        else:
            I.opaque = set(opaque)
        I.opaque.discard(entry)
        I.arith_precise = precise
        I.dyn_force = dict(dyn_force or {})
        if mode == 'layer':
            I.summarise_traits = set(self.layer_traits())
        t0 = time.time()
        g = I.run(entry, args=args, heap=heap(I) if callable(heap) else heap, facts=facts)
        self.stats['explorations'] += 1
        self.stats['nodes'] += g.n
        self.stats['edges'] += len(g.edges)
        self.stats['explore_s'] += time.time() - t0
        # a call through a value the interpreter could not resolve hides whatever that callee does: every rule that
        # reads this graph would pass vacuously on it, so the property's check fails closed instead
        for n in set(g.notes):
            if n and n[0] == 'indirect call':
                self.blind_spots.add('unresolved indirect call in %s at %s: the effects of the callee are not on the state graph' % (n[1], n[2]))
        q = GQ(g)
        q.interp = I
        self._graphs[ck] = q
        return q

    # ----------------------------------------------------------------- roles

    def role(self, name):
        if name not in self._roles:
            self._roles[name] = getattr(self, '_role_' + name)()
        return self._roles[name]

    def layer_traits(self):
        return [self.role('write_trait'), self.role('read_trait')]

    def _dyn_trait_in(self, tyid, depth=0):
        """Local dyn trait mentioned (through generic args) by a type."""
        t = self.T[tyid]
        if t['k'] == 'dyn' and t.get('local'):
            return t['trait']
        if depth > 6:
            return None
        for a in t.get('targs', []) + ([t['to']] if 'to' in t else []) + ([t['elem']] if 'elem' in t else []):
            r = self._dyn_trait_in(a, depth + 1)
            if r:
                return r
        return None

    def _role_stack_cache(self):
        """The public struct with a field Option<Arc<dyn LocalTrait>> (write side) and a bool flag."""
        cands = []
        for path, a in self.facts['adts'].items():
            if not a['public']:
                continue
            t = self.T[a['ty']]
            if t.get('is_enum'):
                continue
            fields = t['variants'][0]['fields']
            dynf = [f for f in fields if 'ty' in f and self.T[f['ty']].get('adt') == 'std::option::Option'
                    and self._dyn_trait_in(f['ty'])]
            boolf = [f for f in fields if 'ty' in f and self.T[f['ty']]['k'] == 'bool']
            # the built cache holds the read side by value (not a builder)
            if dynf and boolf and not any('Builder' in self.T[f['ty']]['s'] for f in fields if 'ty' in f):
                cands.append(path)
        if len(cands) != 1:
            raise RoleError('stacked cache type: expected exactly one candidate, found %s' % cands)
        return cands[0]

    def stack_fields(self):
        path = self.role('stack_cache')
        t = self.adt(path)
        out = {}
        for i, f in enumerate(t['variants'][0]['fields']):
            ft = self.T[f['ty']]
            if ft['k'] == 'bool':
                out['auto_sync'] = i
            elif ft.get('adt') == 'std::option::Option' and 'Fn(' in ft['s']:
                out['checker'] = i
            elif ft.get('adt') == 'std::option::Option' and self._dyn_trait_in(f['ty']):
                out['write_side'] = i
            elif ft.get('local') and ft['k'] == 'adt':
                out['read_side'] = i
                out['read_side_ty'] = f['ty']
        for need in ('auto_sync', 'write_side', 'read_side'):
            if need not in out:
                raise RoleError('stacked cache field role %s not found in %s' % (need, path))
        # the stacked cache may keep its own handle on the checker or consult the read side's: both layouts are fine
        out.setdefault('checker', None)
        return out

    def checker_none_facts(self, entry):
        """Refinement facts that specialise an exploration of a stacked/read-only cache method to
        'no consistency checker configured' (both the stacked cache's field and its read side's)."""
        body = self.B[entry]
        selfp = SYM('param', '1', body['locals'][1].get('name', 'arg1'))
        obj = SYM('ld', selfp, '*')
        facts = {}
        sty = self.T[body['impl_self_ty']].get('adt') if body.get('impl_self_ty') is not None else None
        if sty == self.role('stack_cache'):
            f = self.stack_fields()
            if f['checker'] is not None:
                facts[('var', SYM('fld', obj, 'f%d' % f['checker']))] = 0
            rs = SYM('fld', obj, 'f%d' % f['read_side'])
            facts[('var', SYM('fld', rs, 'f%d' % self.readonly_fields()['checker']))] = 0
        elif sty == self.role('readonly_cache'):
            facts[('var', SYM('fld', obj, 'f%d' % self.readonly_fields()['checker']))] = 0
        return facts

    def auto_sync_heap(self, entry, value):
        """Symbolic-heap seed specialising a stacked-cache method to auto_sync == value."""
        body = self.B[entry]
        selfp = SYM('param', '1', body['locals'][1].get('name', 'arg1'))
        return {('s', selfp, (('f', self.stack_fields()['auto_sync']),)): INT(1 if value else 0)}

    def insert_methods(self):
        """Role of each write-side trait method: the public operation of the plain cache its
        implementation for that type delegates to (get / set / put / touch / temp_dir)."""
        if 'insert_methods' in self._roles:
            return self._roles['insert_methods']
        wt = self.role('write_trait')
        tr = self.traits[wt]
        out = {}
        for imp in tr['impls']:
            sty = imp['self_ty_s']
            for name, k in imp['methods'].items():
                for c in self.cg.local_edges.get(k, ()):
                    b = self.B[c]
                    if b['public'] and b['path'].startswith(sty + '::') and b['name'] in ('get', 'set', 'put', 'touch', 'temp_dir'):
                        if out.get(name, b['name']) != b['name']:
                            raise RoleError('write-side method %s has inconsistent roles across implementors' % name)
                        out[name] = b['name']
        for need in ('set', 'put', 'get', 'temp_dir', 'touch'):
            if need not in out.values():
                raise RoleError('write-side trait method role %s not found' % need)
        self._roles['insert_methods'] = out
        return out

    def spec_facts(self, entry, checker=None, write_side=None):
        """Refinement facts specialising a stacked / read-only cache method:
        checker in {None (unconstrained), 'none', 'some'}; write_side likewise."""
        body = self.B[entry]
        selfp = SYM('param', '1', body['locals'][1].get('name', 'arg1'))
        obj = SYM('ld', selfp, '*')
        facts = {}
        sty = self.T[body['impl_self_ty']].get('adt') if body.get('impl_self_ty') is not None else None
        cv = {'none': 0, 'some': 1}
        if sty == self.role('stack_cache'):
            f = self.stack_fields()
            if checker:
                if f['checker'] is not None:
                    facts[('var', SYM('fld', obj, 'f%d' % f['checker']))] = cv[checker]
                rs = SYM('fld', obj, 'f%d' % f['read_side'])
                facts[('var', SYM('fld', rs, 'f%d' % self.readonly_fields()['checker']))] = cv[checker]
            if write_side:
                facts[('var', SYM('fld', obj, 'f%d' % f['write_side']))] = cv[write_side]
        elif sty == self.role('readonly_cache'):
            if checker:
                facts[('var', SYM('fld', obj, 'f%d' % self.readonly_fields()['checker']))] = cv[checker]
        return facts

    def _role_write_trait(self):
        t = self.adt(self.role('stack_cache'))
        for f in t['variants'][0]['fields']:
            ft = self.T[f['ty']]
            if ft.get('adt') == 'std::option::Option' and 'Fn(' not in ft['s']:
                r = self._dyn_trait_in(f['ty'])
                if r:
                    return r
        raise RoleError('write-side trait not found')

    def _role_readonly_cache(self):
        cands = []
        for path, a in self.facts['adts'].items():
            if not a['public']:
                continue
            t = self.T[a['ty']]
            if t.get('is_enum'):
                continue
            for f in t['variants'][0]['fields']:
                ft = self.T[f['ty']]
                if ft.get('adt') == 'std::sync::Arc' and '[' in ft['s'] and self._dyn_trait_in(f['ty']):
                    cands.append(path)
        if len(cands) != 1:
            raise RoleError('read-only cache type: expected one candidate, found %s' % cands)
        return cands[0]

    def _role_read_trait(self):
        t = self.adt(self.role('readonly_cache'))
        for f in t['variants'][0]['fields']:
            ft = self.T[f['ty']]
            if ft.get('adt') == 'std::sync::Arc' and '[' in ft['s']:
                r = self._dyn_trait_in(f['ty'])
                if r:
                    return r
        raise RoleError('read-side trait not found')

    def readonly_fields(self):
        t = self.adt(self.role('readonly_cache'))
        out = {}
        for i, f in enumerate(t['variants'][0]['fields']):
            ft = self.T[f['ty']]
            if ft.get('adt') == 'std::sync::Arc' and '[' in ft['s']:
                out['stack'] = i
            elif ft.get('adt') == 'std::option::Option' and 'Fn(' in ft['s']:
                out['checker'] = i
        if len(out) != 2:
            raise RoleError('read-only cache fields not found')
        return out

    def _role_cachedir_trait(self):
        """Local trait whose provided methods reach a publish primitive."""
        cands = []
        for tp, tr in self.traits.items():
            for m in tr['methods']:
                if m.get('key') and (self.cg.effects(m['key']) & {'publish_replace', 'publish_excl'}):
                    cands.append(tp)
                    break
        if len(cands) != 1:
            raise RoleError('cache-directory trait: expected one candidate, found %s' % cands)
        return cands[0]

    def cachedir_methods(self):
        """Roles of the cache-directory trait's provided methods.  get/set/put/touch/ensure_temp are
        anchored on the public plain-cache API (the provided method that `plain::Cache::<op>` calls);
        maintenance methods are the remaining provided methods that list a directory."""
        if 'cachedir_methods' in self._roles:
            return self._roles['cachedir_methods']
        tp = self.role('cachedir_trait')
        tr = self.traits[tp]
        provided = {m['key']: m['name'] for m in tr['methods'] if m.get('key')}
        plain = None
        for imp in tr['impls']:
            # the implementor that is a public type with public get/set/put/touch methods
            if self.facts['adts'].get(imp['self_ty_s'], {}).get('public'):
                plain = imp['self_ty_s']
        if plain is None:
            raise RoleError('no public implementor of the cache-directory trait')
        characteristic = {'get': {'open_ro', 'open_rw'}, 'set': {'publish_replace'}, 'put': {'publish_excl'},
                          'touch': {'meta_atime', 'meta_times', 'meta_times_h'}, 'ensure_temp': {'ns_create_dir'}}
        out = LazyRoles()
        for role, api in (('get', 'get'), ('set', 'set'), ('put', 'put'), ('touch', 'touch'), ('ensure_temp', 'temp_dir')):
            k = self.by_path.get('%s::%s' % (plain, api))
            if k is None:
                out.errors[role] = 'public method %s::%s not found' % (plain, api)
                continue
            callees = [c for c in self.cg.local_edges.get(k, ()) if c in provided]
            if len(callees) > 1:
                # several provided methods are called: the role is the one with the operation's characteristic effect
                narrowed = [c for c in callees if self.cg.effects(c) & characteristic[role]]
                if len(narrowed) > 1:
                    # prefer the one whose *own* effect set is the smallest superset (e.g. not the maintenance helper)
                    narrowed = sorted(narrowed, key=lambda c: len(self.cg.effects(c)))[:1]
                callees = narrowed
            if len(callees) != 1:
                out.errors[role] = '%s::%s does not delegate to exactly one cache-directory method (%s)' % (plain, api, callees)
                continue
            out[role] = callees[0]
        used = set(v for v in out.values() if isinstance(v, str))
        out['maintain'] = [k for k in provided if k not in used and 'list_dir' in self.cg.effects(k)]
        if not out['maintain']:
            out.errors['maintain'] = 'cache-directory maintenance methods not found'
            del out['maintain']
        self._roles['cachedir_methods'] = out
        return out

    def cachedir_impls(self):
        tr = self.traits[self.role('cachedir_trait')]
        return [(imp['self_ty_s'], imp) for imp in tr['impls']]

    def required_methods(self, trait):
        return [m['name'] for m in self.traits[trait]['methods'] if not m.get('key')]

    def _role_absence_classifier(self):
        """Pure local fn(&io::Error) -> bool."""
        cands = []
        for k, b in self.B.items():
            if b['def_kind'] != 'Fn' or b['arg_count'] != 1 or k not in self.pure:
                continue
            a = self.T[b['locals'][1]['ty']]
            r = self.T[b['locals'][0]['ty']]
            if r['k'] == 'bool' and a['k'] == 'ref' and self.T[a['to']].get('adt') == 'std::io::Error':
                cands.append(k)
        if len(cands) > 1:
            # several predicates over io::Error: the classifier is the one the cache-directory lookup itself
            # consults to turn a failed open into a miss; failing that, the one with the most callers
            try:
                get = self.cachedir_methods()['get']
                direct = [k for k in cands if k in self.cg.local_edges.get(get, ())]
            except RoleError:
                direct = []
            if len(direct) == 1:
                return direct[0]
            pool = direct or cands
            ncall = {k: sum(1 for src, dst in self.cg.local_edges.items() if k in dst) for k in pool}
            best = max(ncall.values())
            top = [k for k in pool if ncall[k] == best]
            if len(top) == 1:
                return top[0]
        if len(cands) != 1:
            raise RoleError('absence classifier: expected one fn(&io::Error)->bool, found %s' % cands)
        return cands[0]

    def _role_validator(self):
        """Pure local fn(&str) -> io::Result<_> called by the cache-directory lookup with the key name."""
        get = self.cachedir_methods()['get']
        cands = set()
        direct = set(self.cg.local_edges.get(get, ()))
        for callee in sorted(direct) + sorted(self.cg.reach(get) - direct):     # (directly, or through a shared helper)
            if cands and callee not in direct:
                break
            b = self.B[callee]
            if callee in self.pure and b['arg_count'] == 1:
                a = self.T[b['locals'][1]['ty']]
                r = self.T[b['locals'][0]['ty']]
                if a['k'] == 'ref' and self.T[a['to']]['k'] == 'str' and r.get('adt') == 'std::result::Result':
                    cands.add(callee)
        if len(cands) != 1:
            raise RoleError('name validator: expected one fn(&str)->Result called by the lookup, found %s' % sorted(cands))
        return cands.pop()

    def _role_publish_bodies(self):
        out = {}
        for k in self.B:
            for (np, cls, site) in self.cg.ext_calls.get(k, ()):
                if cls in ('publish_replace', 'publish_excl'):
                    out.setdefault(k, set()).add(cls)
        if not out:
            raise RoleError('no publish primitive found')
        return out

    def _role_finalizers(self):
        """Local fns taking a NamedTempFile by value and returning io::Result<TempPath> (one today)."""
        cands = []
        for k, b in self.B.items():
            if b['def_kind'] != 'Fn' or b['arg_count'] < 1:
                continue
            a = self.T[b['locals'][1]['ty']]
            r = self.T[b['locals'][0]['ty']]
            if a.get('adt') == 'tempfile::NamedTempFile' and 'tempfile::TempPath' in r['s']:
                cands.append(k)
        if not cands:
            raise RoleError('finalizer: no fn(NamedTempFile, ..)->Result<TempPath> found')
        return sorted(cands)

    def _role_finalizer(self):
        return self.role('finalizers')[0]


# --------------------------------------------------------------------------- tags

class Tags:
    """Provenance classification of path terms (DESIGN §3.2 L3), from discovered roles."""

    def __init__(self, ctx):
        self.ctx = ctx
        tr_path = ctx.role('cachedir_trait')
        tr = ctx.traits[tr_path]
        required = [m['name'] for m in tr['methods'] if not m.get('key')]
        # event path of every implementation of every required method
        self.impl_paths = {}   # 'local::<path>' -> method name
        for imp in tr['impls']:
            for name in required:
                k = imp['methods'].get(name)
                if k:
                    self.impl_paths['local::' + ctx.B[k]['path']] = name
        m = ctx.cachedir_methods()
        self.validator = ctx.role('validator')
        self.validator_path = 'local::' + ctx.B[self.validator]['path']
        self.roles = {}
        # directory accessor: mentioned by the lookup's open path
        q = ctx.explore(m['get'])
        self.roles['dir'] = self._accessor_in(q, q.prim_edges({'open_ro', 'open_rw'}), None, 'directory accessor')
        q = ctx.explore(m['ensure_temp'])
        self.roles['temp'] = self._accessor_in(q, q.prim_edges('ns_create_dir'), 0, 'temp accessor')
        # capacity accessor: feeds the planner; trigger accessor: receiver of the gating pure call
        q = ctx.explore(m['set'])
        planner = 'local::' + ctx.B[ctx.helper('second_chance::Update::<T>::new')]['path']
        pe = q.edges(lambda ev: ev['k'] == 'pure_local' and ev['path'] == planner)
        self.planner_path = planner
        self.role_errors = {}
        try:
            self.roles['capacity'] = self._accessor_in(q, pe, 1, 'capacity accessor', exclude=set(self.roles.values()))
        except RoleError as e:
            self.role_errors['capacity'] = str(e)     # only the rules that need this role fail closed
        cand = set()
        for (a, b, ev) in q.E:
            if ev is not None and ev['k'] == 'pure_local' and ev.get('dest_ty') == 'bool':
                for arg in ev['args']:
                    for s in values.subs(arg):
                        t = VAL[s]
                        if t[0] == 'sym' and t[1] == 'app' and t[2] in self.impl_paths:
                            cand.add((self.impl_paths[t[2]], ev['path']))
        cand = {c for c in cand if c[0] not in self.roles.values()}
        self.trigger_consult_paths = set()
        if len({c[0] for c in cand}) != 1:
            self.role_errors['trigger'] = 'trigger accessor: expected one, found %s' % sorted(cand)
        else:
            self.roles['trigger'] = next(iter(cand))[0]
            self.trigger_consult_paths = {c[1] for c in cand}
        self.by_role = {}
        for p, name in self.impl_paths.items():
            for role, n in self.roles.items():
                if n == name:
                    self.by_role.setdefault(role, set()).add(p)

    def need(self, role):
        if role in self.role_errors:
            raise RoleError(self.role_errors[role])
        return self.by_role[role]

    def _accessor_in(self, q, edges, argi, what, exclude=()):
        names = set()
        for e in edges:
            ev = q.E[e][2]
            if argi is None:
                argi_ = prims.classify(ev['path'])[1].get('path', 0)
            else:
                argi_ = argi
            if argi_ >= len(ev['args']) or ev['args'][argi_] is None:
                continue
            for s in values.subs(ev['args'][argi_]):
                t = VAL[s]
                if t[0] == 'sym' and t[1] == 'app' and t[2] in self.impl_paths:
                    names.add(self.impl_paths[t[2]])
        names -= set(exclude)
        if len(names) != 1:
            raise RoleError('%s: expected exactly one required method, found %s' % (what, sorted(names)))
        return names.pop()

    # ------------------------------------------------------------------

    def tags(self, v):
        """Set of provenance tags of a term."""
        out = set()
        if v is None:
            return out
        for s in values.subs(v):
            t = VAL[s]
            if t[0] == 'sym':
                k = t[1]
                if k == 'app':
                    p = t[2]
                    if p in self.by_role.get('dir', ()):
                        out.add('BaseDir')
                    elif p in self.by_role.get('temp', ()):
                        out.add('TempDir')
                    elif p == 'std::fs::DirEntry::file_name':
                        out.add('ListedName')
                    elif p in ('filetime::FileTime::now', 'std::time::SystemTime::now'):
                        out.add('Now')
                    elif p.startswith('tempfile::'):
                        out.add('TempFile')
                elif k == 'vf' and t[3] == 'v0':
                    b = VAL[t[2]]
                    if b[0] == 'sym' and b[1] == 'app' and b[2] == self.validator_path:
                        out.add('KeyNameValidated')
                elif k == 'param':
                    out.add('Param%s' % t[2])
            elif t[0] == 'str':
                out.add('Const:' + t[1])
        return out

    def split_path(self, v):
        """(dir term, leaf term) when v is path.push(dir, leaf); else (v, None)."""
        if v is None:
            return None, None
        t = VAL[v]
        if t[0] == 'sym' and t[1] == 'app' and t[2] == 'path.push':
            return t[4], t[5] if len(t) > 5 else None
        return v, None
