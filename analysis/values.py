"""Hash-consed abstract values (terms) for the MIR interpreter.

Every value is an integer id into VAL; the tuple stored there has a tag in
position 0.  Child values are referenced by id (Python int); raw integers that
are *not* ids are stored as strings, so `children()` can be generic per tag.

 ('int', '<decimal>')                constant scalar (bools, chars, ints)
 ('str', s)                          constant &str
 ('zst', tystr)                      zero-sized value (unit, marker)
 ('fn', path, key_or_'' , gargs)     function item
 ('agg', kind, 'v<idx>', f0, f1..)   aggregate; kind = 'tuple' | 'array' | adt path | 'closure:<key>'
 ('ptr', addr)                       pointer to a concrete place; addr = (rootkind, ..., proj)
 ('site', key, 'bb<n>')              a call site (leaf used inside terms)
 ('sym', kind, ...)                  symbolic value:
     ('sym','param', '<i>', name)            entry-point parameter
     ('sym','app', path, site, a0, a1..)     result of an external call
     ('sym','cb', site, callee, a0..)        result of a user callback
     ('sym','ld', base, projstr)             load through a symbolic pointer
     ('sym','vf', base, 'v<k>', 'f<i>')      payload field of a refined enum value
     ('sym','fld', base, 'f<i>')             field of a symbolic struct/tuple
     ('sym','mut', path, site, old, a0..)    value after an external &mut call
     ('sym','bin', op, a, b) / ('sym','un', op, a) / ('sym','cmp', op, a, b) / ('sym','cast', a, ty)
     ('sym','wide', l0, l1, ...)             widened term (sorted leaves)
     ('sym','tl', path)                      thread-local / static reference
"""

VAL = []          # id -> tuple
_IDX = {}         # tuple -> id
DEPTH = []        # id -> term depth
_LEAVES = {}      # id -> frozenset of leaf ids
_SUBS = {}        # id -> frozenset of all sub ids (incl. self)

D_MAX = 80


def reset():
    VAL.clear()
    _IDX.clear()
    DEPTH.clear()
    _LEAVES.clear()
    _SUBS.clear()


def children(t):
    tag = t[0]
    if tag == 'agg':
        return [x for x in t[3:] if x is not None]
    if tag == 'ptr':
        a = t[1]
        if a[0] == 'sroot':
            return [a[1]]
        return []
    if tag == 'mu':
        return [x for x in t[2:] if x is not None]
    if tag == 'sym':
        k = t[1]
        if k == 'app':
            return [t[3]] + [x for x in t[4:] if x is not None]
        if k == 'cb':
            return [x for x in t[2:] if x is not None]
        if k in ('ld', 'vf', 'fld'):
            return [t[2]]
        if k == 'mut':
            return [x for x in t[2:] if x is not None]
        if k in ('bin', 'cmp'):
            return [t[3], t[4]]
        if k == 'un':
            return [t[3]]
        if k == 'cast':
            return [t[2]]
        if k == 'wide':
            return list(t[2:])
        if k == 'upd':
            return [t[2], t[4]]
        return []
    return []


def mk(t):
    i = _IDX.get(t)
    if i is not None:
        return i
    ch = children(t)
    d = 1 + max([DEPTH[c] for c in ch], default=0)
    if d > D_MAX and t[0] == 'sym':
        # widen: keep only the leaves
        lv = set()
        for c in ch:
            lv |= leaves(c)
        w = ('sym', 'wide') + tuple(sorted(lv))
        j = _IDX.get(w)
        if j is None:
            j = len(VAL)
            VAL.append(w)
            DEPTH.append(2)
            _IDX[w] = j
        _IDX[t] = j
        return j
    i = len(VAL)
    VAL.append(t)
    DEPTH.append(d)
    _IDX[t] = i
    return i


def leaves(i):
    r = _LEAVES.get(i)
    if r is not None:
        return r
    t = VAL[i]
    ch = children(t)
    if not ch:
        r = frozenset([i])
    else:
        s = set()
        for c in ch:
            s |= leaves(c)
        # call sites and parameters stay identifiable through 'app'/'mut' nodes
        r = frozenset(s)
    _LEAVES[i] = r
    return r


def subs(i):
    r = _SUBS.get(i)
    if r is not None:
        return r
    s = {i}
    for c in children(VAL[i]):
        s |= subs(c)
    r = frozenset(s)
    _SUBS[i] = r
    return r


# ---------------------------------------------------------------- constructors

def INT(v):
    return mk(('int', str(int(v))))


def STR(s):
    return mk(('str', s))


def ZST(ty='()'):
    return mk(('zst', ty))


def FN(path, key, gargs=()):
    return mk(('fn', path, key or '', tuple(gargs)))


def AGG(kind, variant, fields):
    return mk(('agg', kind, 'v%d' % variant) + tuple(fields))


def SITE(key, bb):
    return mk(('site', key, 'bb%d' % bb))


def SYM(kind, *rest):
    return mk(('sym', kind) + tuple(rest))


def MUT(old, path, site, args=()):
    """Value of an object after an external call mutated it through `&mut`:
    ('sym','mut', root, d1, d2, ...) with a sorted *set* of mutation descriptors
    ('mu', path, site, args...) -- idempotent and order-insensitive, so loops converge."""
    d = mk(('mu', path, site) + tuple(a for a in args if a is not None))
    t = VAL[old]
    if t[0] == 'sym' and t[1] == 'mut':
        root = t[2]
        ds = set(t[3:])
    else:
        root = old
        ds = set()
    ds.add(d)
    return mk(('sym', 'mut', root) + tuple(sorted(ds)))


def mut_root(i):
    t = VAL[i]
    if t[0] == 'sym' and t[1] == 'mut':
        return t[2]
    return i


def PTR(addr):
    # a pointer to the start of a symbolic object is that symbolic value itself
    if addr[0] == 'sroot' and not addr[2]:
        return addr[1]
    return mk(('ptr', addr))


def tag(i):
    return VAL[i][0] if i is not None else None


def is_int(i):
    return i is not None and VAL[i][0] == 'int'


def int_of(i):
    return int(VAL[i][1])


def is_sym(i):
    return i is not None and VAL[i][0] == 'sym'


def is_agg(i):
    return i is not None and VAL[i][0] == 'agg'


def is_ptr(i):
    return i is not None and VAL[i][0] == 'ptr'


def agg_variant(i):
    return int(VAL[i][2][1:])


def agg_fields(i):
    return VAL[i][3:]


def agg_kind(i):
    return VAL[i][1]


def show(i, depth=4):
    """Readable rendering of a value (diagnostics / evidence samples)."""
    if i is None:
        return '⊥'
    t = VAL[i]
    tg = t[0]
    if depth <= 0:
        return '…'
    if tg == 'int':
        return t[1]
    if tg == 'str':
        return repr(t[1])
    if tg == 'zst':
        return 'zst'
    if tg == 'fn':
        return 'fn:' + t[1]
    if tg == 'site':
        return '@%s:%s' % (t[1].split('::')[-1], t[2])
    if tg == 'agg':
        return '%s#%s(%s)' % (t[1].split('::')[-1], t[2][1:], ', '.join(show(x, depth - 1) for x in t[3:]))
    if tg == 'ptr':
        return '&%s' % (t[1],)
    if tg == 'sym':
        k = t[1]
        if k == 'param':
            return 'param%s:%s' % (t[2], t[3])
        if k == 'app':
            return '%s%s(%s)' % (t[2].split('::')[-1] if '::' in t[2] else t[2], show(t[3], 1), ', '.join(show(x, depth - 1) for x in t[4:]))
        if k == 'cb':
            return 'cb%s(%s)' % (show(t[2], 1), ', '.join(show(x, depth - 1) for x in t[3:]))
        if k == 'ld':
            return '%s.%s' % (show(t[2], depth - 1), t[3])
        if k == 'vf':
            return '%s.%s.%s' % (show(t[2], depth - 1), t[3], t[4])
        if k == 'fld':
            return '%s.%s' % (show(t[2], depth - 1), t[3])
        if k == 'mut':
            return '%s!{%s}' % (show(t[2], depth - 1), ', '.join(VAL[x][1].split('::')[-1] + show(VAL[x][2], 1) for x in t[3:]))
        if k in ('bin', 'cmp'):
            return '(%s %s %s)' % (show(t[3], depth - 1), t[2], show(t[4], depth - 1))
        if k == 'un':
            return '(%s %s)' % (t[2], show(t[3], depth - 1))
        if k == 'cast':
            return 'cast(%s)' % show(t[2], depth - 1)
        if k == 'wide':
            return 'wide{%s}' % ', '.join(show(x, 1) for x in t[2:])
        return str(t)
    return str(t)
