"""Trusted classification of external primitives (DESIGN §3.3).

Keys are *normalised* callee paths (models.norm_path: generic arguments and
`impl` qualifiers stripped).  Each entry: class, and argument roles (index of
the operand that is the path / source / destination / handle / times / mode).

Classes
  probe            stat-like, no mutation                      open_ro    open read-only
  open_rw          open for writing / create                   list_dir   read a directory
  content_write    write file contents through a handle        truncate   set_len / truncate
  sync             fsync/fdatasync                             close      explicit close
  meta_atime       can change atime only                       meta_times can change mtime (and atime)
  meta_perm        chmod-like                                  ns_create_file / ns_create_dir
  ns_remove_file   unlink                                      ns_remove_dir  rmdir / remove_dir_all
  publish_replace  rename                                      publish_excl   hard_link
  temp_create_named / temp_create_anon / temp_persist
  lock / block / leak / seek / read / fd_raw / process / net / catch_unwind
  pure             no effect on files, descriptors, scheduling
"""

P = {}


def _add(cls, names, **roles):
    for n in names:
        P[n] = dict(roles, cls=cls)


# ---------------------------------------------------------------- std::fs free functions
_add('probe', ['std::fs::metadata', 'std::fs::symlink_metadata', 'std::fs::exists', 'std::fs::try_exists',
               'std::fs::canonicalize', 'std::fs::read_link', 'std::path::Path::exists', 'std::path::Path::try_exists',
               'std::path::Path::is_file', 'std::path::Path::is_dir', 'std::path::Path::is_symlink',
               'std::path::Path::metadata', 'std::path::Path::symlink_metadata', 'std::path::Path::canonicalize',
               'std::path::Path::read_link'], path=0)
_add('list_dir', ['std::fs::read_dir', 'std::path::Path::read_dir'], path=0)
_add('publish_replace', ['std::fs::rename'], src=0, dst=1)
_add('publish_excl', ['std::fs::hard_link'], src=0, dst=1)
_add('ns_create_file', ['std::fs::write', 'std::fs::copy', 'std::fs::File::create', 'std::fs::File::create_new',
                        'std::fs::File::create_buffered', 'std::os::unix::fs::symlink', 'std::fs::soft_link',
                        'std::os::unix::fs::mkfifo'], path=0)
_add('ns_create_dir', ['std::fs::create_dir', 'std::fs::create_dir_all', 'std::fs::DirBuilder::create'], path=0)
_add('ns_remove_file', ['std::fs::remove_file'], path=0)
_add('ns_remove_dir', ['std::fs::remove_dir', 'std::fs::remove_dir_all'], path=0)
_add('meta_perm', ['std::fs::set_permissions', 'std::os::unix::fs::chown', 'std::os::unix::fs::lchown',
                   'std::os::unix::fs::chroot'], path=0, mode=1)
_add('meta_perm', ['std::fs::File::set_permissions', 'std::os::unix::fs::fchown'], handle=0, mode=1)
_add('meta_times', ['std::fs::File::set_times', 'std::fs::File::set_modified', 'std::fs::set_times',
                    'std::fs::set_times_nofollow'], handle=0)
_add('open_ro', ['std::fs::File::open', 'std::fs::File::open_buffered', 'std::fs::read', 'std::fs::read_to_string'], path=0)
# OpenOptions: the builder calls are pure; `open` is read-write unless the builder term shows only read(true)
# (decided per event by classify_event below; the call graph conservatively says open_rw)
_add('open_rw', ['std::fs::OpenOptions::open'], path=1)
_add('pure', ['std::fs::File::options', 'std::fs::OpenOptions::new', 'std::fs::OpenOptions::read',
              'std::fs::OpenOptions::write', 'std::fs::OpenOptions::append', 'std::fs::OpenOptions::create',
              'std::fs::OpenOptions::create_new', 'std::fs::OpenOptions::truncate',
              'std::os::unix::fs::OpenOptionsExt::mode', 'std::os::unix::fs::OpenOptionsExt::custom_flags',
              '<std::fs::OpenOptions as std::os::unix::fs::OpenOptionsExt>::mode',
              '<std::fs::OpenOptions as std::os::unix::fs::OpenOptionsExt>::custom_flags'])
_add('truncate', ['std::fs::File::set_len'], handle=0)
_add('sync', ['std::fs::File::sync_all', 'std::fs::File::sync_data'], handle=0)
_add('probe', ['std::fs::File::metadata', 'std::fs::DirEntry::metadata', 'std::fs::DirEntry::file_type'], handle=0)
_add('lock', ['std::fs::File::lock', 'std::fs::File::lock_shared', 'std::fs::File::try_lock',
              'std::fs::File::try_lock_shared', 'std::fs::File::unlock'], handle=0)
_add('fd_dup', ['std::fs::File::try_clone', 'std::os::fd::BorrowedFd::try_clone_to_owned',
                'std::os::fd::OwnedFd::try_clone'], handle=0)
_add('content_write', ['std::io::copy'], src=0, handle=1)
_add('content_write', ['<std::fs::File as std::io::Write>::write', '<std::fs::File as std::io::Write>::write_all',
                       '<std::fs::File as std::io::Write>::write_vectored', '<std::fs::File as std::io::Write>::write_fmt',
                       '<&std::fs::File as std::io::Write>::write', '<&std::fs::File as std::io::Write>::write_all',
                       'std::io::Write::write', 'std::io::Write::write_all', 'std::io::Write::write_fmt',
                       'std::os::unix::fs::FileExt::write_at', 'std::os::unix::fs::FileExt::write_all_at'], handle=0)
_add('flush', ['<std::fs::File as std::io::Write>::flush', 'std::io::Write::flush'], handle=0)
_add('read', ['<std::fs::File as std::io::Read>::read', '<std::fs::File as std::io::Read>::read_to_end',
              '<std::fs::File as std::io::Read>::read_to_string', '<std::fs::File as std::io::Read>::read_exact',
              '<&std::fs::File as std::io::Read>::read', 'std::io::Read::read', 'std::io::Read::read_to_end',
              'std::io::Read::read_to_string', 'std::io::Read::read_exact', 'std::os::unix::fs::FileExt::read_at'], handle=0)
_add('seek', ['<std::fs::File as std::io::Seek>::seek', '<&std::fs::File as std::io::Seek>::seek', 'std::io::Seek::seek',
              'std::io::Seek::rewind', '<std::fs::File as std::io::Seek>::rewind', 'std::io::Seek::stream_position'], handle=0, pos=1)
_add('fd_raw', ['<std::fs::File as std::os::fd::IntoRawFd>::into_raw_fd', 'std::os::fd::IntoRawFd::into_raw_fd',
                '<std::fs::File as std::os::fd::AsRawFd>::as_raw_fd', 'std::os::fd::AsRawFd::as_raw_fd',
                '<std::fs::File as std::os::fd::FromRawFd>::from_raw_fd', 'std::os::fd::FromRawFd::from_raw_fd',
                'std::os::fd::AsFd::as_fd'], handle=0)
_add('list_next', ['<std::fs::ReadDir as std::iter::Iterator>::next'], handle=0)
_add('pure', ['std::fs::DirEntry::file_name', 'std::fs::DirEntry::path', 'std::fs::Metadata::is_dir',
              'std::fs::Metadata::is_file', 'std::fs::Metadata::is_symlink', 'std::fs::Metadata::file_type',
              'std::fs::Metadata::len', 'std::fs::Metadata::modified', 'std::fs::Metadata::accessed',
              'std::fs::Metadata::created', 'std::fs::Metadata::permissions', 'std::fs::FileType::is_dir',
              'std::fs::FileType::is_file', 'std::fs::FileType::is_symlink', 'std::fs::Permissions::readonly',
              'std::fs::Permissions::set_readonly',
              '<std::fs::Permissions as std::os::unix::fs::PermissionsExt>::from_mode',
              '<std::fs::Permissions as std::os::unix::fs::PermissionsExt>::mode',
              '<std::fs::Permissions as std::os::unix::fs::PermissionsExt>::set_mode',
              'std::os::unix::fs::PermissionsExt::from_mode', 'std::os::unix::fs::PermissionsExt::set_mode',
              'std::os::unix::fs::MetadataExt::mode', 'std::os::unix::fs::MetadataExt::mtime',
              'std::os::unix::fs::MetadataExt::atime'])

# ---------------------------------------------------------------- libc
_add('close', ['libc::close'], handle=0)
_add('lock', ['libc::flock', 'libc::lockf', 'libc::fcntl', 'libc::pthread_mutex_lock', 'libc::sem_wait'])
_add('block', ['libc::sleep', 'libc::usleep', 'libc::nanosleep', 'libc::poll', 'libc::select', 'libc::waitpid',
               'libc::sched_yield'])
_add('ns_remove_file', ['libc::unlink'], path=0)
_add('ns_remove_file', ['libc::unlinkat'], dir=0, path=1)
_add('ns_remove_dir', ['libc::rmdir'], path=0)
_add('publish_replace', ['libc::rename'], src=0, dst=1)
_add('publish_replace', ['libc::renameat', 'libc::renameat2'], src=1, dst=3)
_add('publish_excl', ['libc::link'], src=0, dst=1)
_add('publish_excl', ['libc::linkat'], src=1, dst=3)
_add('open_rw', ['libc::open', 'libc::creat'], path=0)
_add('open_rw', ['libc::openat'], dir=0, path=1)
_add('content_write', ['libc::write', 'libc::pwrite', 'libc::writev'], handle=0)
_add('truncate', ['libc::ftruncate', 'libc::truncate'], handle=0)
_add('sync', ['libc::fsync', 'libc::fdatasync'], handle=0)
_add('meta_perm', ['libc::chmod', 'libc::fchmod', 'libc::chown', 'libc::fchown'], path=0)
_add('meta_perm', ['libc::fchmodat', 'libc::fchownat'], dir=0, path=1)
_add('meta_times', ['libc::futimens', 'libc::utimes', 'libc::utime'], path=0)
_add('meta_times', ['libc::utimensat'], dir=0, path=1)
_add('ns_create_dir', ['libc::mkdir'], path=0)
_add('ns_create_dir', ['libc::mkdirat'], dir=0, path=1)
_add('fd_dup', ['libc::dup', 'libc::dup2', 'libc::dup3'], handle=0)

# ---------------------------------------------------------------- filetime
_add('meta_times', ['filetime::set_file_times', 'filetime::set_symlink_file_times'], path=0, atime=1, mtime=2)
_add('meta_times', ['filetime::set_file_mtime'], path=0, mtime=1)
_add('meta_atime', ['filetime::set_file_atime'], path=0, atime=1)
_add('meta_times_h', ['filetime::set_file_handle_times'], handle=0, atime=1, mtime=2)
_add('pure', ['filetime::FileTime::now', 'filetime::FileTime::from_unix_time', 'filetime::FileTime::unix_seconds',
              'filetime::FileTime::seconds', 'filetime::FileTime::nanoseconds', 'filetime::FileTime::zero',
              'filetime::FileTime::from_last_access_time', 'filetime::FileTime::from_last_modification_time',
              'filetime::FileTime::from_creation_time', 'filetime::FileTime::from_system_time'])

# ---------------------------------------------------------------- tempfile
_add('temp_create_named', ['tempfile::NamedTempFile::new_in', 'tempfile::tempdir_in', 'tempfile::TempDir::new_in'], dir=0)
_add('temp_create_named', ['tempfile::Builder::tempfile_in', 'tempfile::Builder::tempdir_in', 'tempfile::Builder::make_in',
                           'tempfile::NamedTempFile::with_prefix_in', 'tempfile::NamedTempFile::with_suffix_in',
                           'tempfile::TempDir::with_prefix_in', 'tempfile::TempDir::with_suffix_in'], dir=1)
_add('pure', ['tempfile::Builder::new', 'tempfile::Builder::prefix', 'tempfile::Builder::suffix', 'tempfile::Builder::rand_bytes',
              'tempfile::Builder::append', 'tempfile::Builder::permissions', '<tempfile::Builder as std::default::Default>::default'])
_add('temp_persist', ['tempfile::Builder::keep', 'tempfile::Builder::disable_cleanup'])
_add('temp_create_named_default', ['tempfile::NamedTempFile::new', 'tempfile::Builder::tempfile', 'tempfile::tempdir',
                                   'tempfile::TempDir::new', 'tempfile::NamedTempFile::with_prefix'])
_add('temp_create_anon', ['tempfile::tempfile_in', 'tempfile::spooled_tempfile_in'], dir=0)
_add('temp_create_anon', ['tempfile::tempfile', 'tempfile::spooled_tempfile'])
_add('temp_persist', ['tempfile::NamedTempFile::persist', 'tempfile::NamedTempFile::persist_noclobber',
                      'tempfile::NamedTempFile::keep', 'tempfile::TempPath::persist', 'tempfile::TempPath::persist_noclobber',
                      'tempfile::TempPath::keep', 'tempfile::TempDir::into_path', 'tempfile::TempDir::keep',
                      'tempfile::NamedTempFile::into_temp_path', 'tempfile::TempPath::disable_cleanup',
                      'tempfile::NamedTempFile::disable_cleanup', 'tempfile::TempDir::disable_cleanup'], handle=0)
_add('pure', ['tempfile::NamedTempFile::as_file', 'tempfile::NamedTempFile::as_file_mut', 'tempfile::NamedTempFile::path',
              'tempfile::NamedTempFile::into_parts', 'tempfile::NamedTempFile::into_file',
              '<tempfile::TempPath as std::ops::Deref>::deref', 'tempfile::NamedTempFile::from_parts',
              'tempfile::TempPath::from_path', 'tempfile::NamedTempFile::reopen'])
P['tempfile::NamedTempFile::reopen'] = {'cls': 'open_rw', 'handle': 0}
P['tempfile::NamedTempFile::into_file'] = {'cls': 'temp_unlink_keep_fd', 'handle': 0}

# ---------------------------------------------------------------- waiting / locking / leaking
_add('lock', ['std::sync::Mutex::lock', 'std::sync::Mutex::try_lock', 'std::sync::RwLock::read', 'std::sync::RwLock::write',
              'std::sync::RwLock::try_read', 'std::sync::RwLock::try_write', 'std::sync::Condvar::wait',
              'std::sync::Condvar::wait_timeout', 'std::sync::Condvar::wait_while', 'std::sync::Barrier::wait',
              'std::sync::mpsc::Receiver::recv', 'std::sync::mpsc::Receiver::recv_timeout',
              'std::sync::mpsc::SyncSender::send', 'std::sync::Once::call_once', 'std::sync::OnceLock::get_or_init',
              'std::sync::LazyLock::force', 'std::sync::ReentrantLock::lock', 'std::sync::Mutex::new', 'std::sync::RwLock::new',
              'std::sync::Condvar::new'])
_add('block', ['std::thread::sleep', 'std::thread::park', 'std::thread::park_timeout', 'std::thread::yield_now',
               'std::thread::JoinHandle::join', 'std::process::Child::wait', 'std::process::Child::wait_with_output',
               'std::process::Command::output', 'std::process::Command::status', 'std::hint::spin_loop',
               'std::thread::spawn', 'std::thread::scope'])
_add('leak', ['std::mem::forget', 'std::mem::ManuallyDrop::new', 'std::boxed::Box::leak', 'std::boxed::Box::into_raw',
              'std::vec::Vec::leak', 'std::sync::Arc::into_raw', 'std::rc::Rc::into_raw'])
_add('catch_unwind', ['std::panic::catch_unwind', 'std::panicking::try', 'std::panic::set_hook', 'std::panic::take_hook'])
_add('process', ['std::process::Command::new', 'std::process::Command::spawn', 'std::process::exit', 'std::process::abort'])

# classes that touch files, descriptors, scheduling (everything but pure)
FS_CLASSES = {'probe', 'open_ro', 'open_rw', 'list_dir', 'list_next', 'content_write', 'truncate', 'sync', 'close',
              'meta_atime', 'meta_times', 'meta_times_h', 'meta_perm', 'ns_create_file', 'ns_create_dir', 'ns_remove_file',
              'ns_remove_dir', 'publish_replace', 'publish_excl', 'temp_create_named', 'temp_create_named_default',
              'temp_create_anon', 'temp_persist', 'temp_unlink_keep_fd', 'fd_dup', 'fd_raw', 'flush', 'read', 'seek'}
MUTATING = {'open_rw', 'content_write', 'truncate', 'meta_atime', 'meta_times', 'meta_times_h', 'meta_perm',
            'ns_create_file', 'ns_create_dir', 'ns_remove_file', 'ns_remove_dir', 'publish_replace', 'publish_excl',
            'temp_create_named', 'temp_create_named_default', 'temp_create_anon', 'temp_persist'}
WAITING = {'lock', 'block'}

# Namespaces in which an unclassified callee is *not* assumed harmless.
SENSITIVE_PREFIXES = ('std::fs::', 'std::os::unix::fs::', 'std::os::fd::', 'libc::', 'filetime::', 'tempfile::',
                      'std::process::', 'std::net::', 'std::thread::', 'std::sync::Mutex', 'std::sync::RwLock',
                      'std::sync::Condvar', 'std::sync::Barrier', 'std::sync::mpsc', 'std::sync::Once',
                      'std::panic::', 'std::os::unix::', '<std::fs::', '<tempfile::', '<filetime::')

# harmless members of sensitive namespaces (no effect class)
KNOWN_PURE = {
    'std::thread::LocalKey::with', 'std::thread::local_impl::EagerStorage::get', 'std::thread::local_impl::LazyStorage::get',
    'std::thread::LocalKey::try_with', 'std::sync::Once::new',
    '<std::fs::File as std::fmt::Debug>::fmt', '<filetime::FileTime as std::cmp::PartialOrd>::lt',
    '<filetime::FileTime as std::cmp::PartialOrd>::ge', '<filetime::FileTime as std::cmp::PartialOrd>::le',
    '<filetime::FileTime as std::cmp::PartialOrd>::gt', '<filetime::FileTime as std::cmp::PartialEq>::eq',
    '<filetime::FileTime as std::cmp::Ord>::cmp', '<filetime::FileTime as std::clone::Clone>::clone',
    '<std::fs::Permissions as std::clone::Clone>::clone',
}


# in-memory accessors of values a stat already produced, of permission/file-type/time values and of directory entries'
# names: they perform no system call
import re as _re
PURE_ACCESSOR = _re.compile(
    r'^(<std::fs::Metadata as std::os::(unix|linux)::fs::MetadataExt>::\w+|std::os::(unix|linux)::fs::MetadataExt::\w+|'
    r'std::fs::Metadata::\w+|std::fs::FileType::\w+|<std::fs::FileType as std::os::unix::fs::FileTypeExt>::\w+|'
    r'std::fs::Permissions::\w+|<std::fs::Permissions as std::os::unix::fs::PermissionsExt>::\w+|'
    r'std::os::unix::fs::PermissionsExt::\w+|std::fs::FileTimes::\w+|std::fs::OpenOptions::(new|read|write|append|create|create_new|truncate)|'
    r'<std::fs::OpenOptions as std::os::unix::fs::OpenOptionsExt>::(mode|custom_flags)|'
    r'<std::fs::DirEntry as std::os::unix::fs::DirEntryExt>::ino|'
    r'<std::fs::\w+ as std::(fmt::Debug|clone::Clone|cmp::PartialEq|cmp::Eq|hash::Hash)>::\w+|'
    r'<filetime::FileTime as std::\w+::\w+>::\w+|filetime::FileTime::(zero|seconds|unix_seconds|nanoseconds|from_unix_time|from_system_time|'
    r'from_last_modification_time|from_last_access_time|from_creation_time))$')


def classify(np):
    """-> (class, roles) ; class None = pure/unknown-harmless ; 'UNCLASSIFIED' for unknown sensitive callees."""
    e = P.get(np)
    if e is not None:
        if e['cls'] == 'pure':
            return None, e
        return e['cls'], e
    if np in KNOWN_PURE or PURE_ACCESSOR.match(np):
        return None, {}
    if np.startswith(SENSITIVE_PREFIXES):
        return 'UNCLASSIFIED', {}
    return None, {}


WRITE_FLAGS = ('std::fs::OpenOptions::write', 'std::fs::OpenOptions::append', 'std::fs::OpenOptions::create',
               'std::fs::OpenOptions::create_new', 'std::fs::OpenOptions::truncate')


def classify_event(ev):
    """class of an explored event; like classify(path) but OpenOptions::open is read-only when the builder
    term carries no write-ish flag set to true."""
    cls, roles = classify(ev['path'])
    if ev['path'] == 'std::fs::OpenOptions::open' and ev.get('args'):
        import values
        from values import VAL
        opts = ev['args'][0]
        writeish = False
        unknown = False
        if opts is None:
            unknown = True
        else:
            for s in values.subs(opts):
                t = VAL[s]
                if t[0] == 'mu' and t[1] in WRITE_FLAGS:
                    flag = [VAL[a] for a in t[3:]]
                    if any(f == ('int', '1') for f in flag) or not all(f[0] == 'int' for f in flag):
                        writeish = True
                if t[0] == 'sym' and t[1] == 'param':
                    unknown = True
        return ('open_rw' if (writeish or unknown) else 'open_ro'), roles
    return cls, roles
