#!/bin/sh
# Build the fact extractor and warm the dependency artefacts (offline).
set -e
DIR="$(cd "$(dirname "$0")" && pwd)"
export CARGO_NET_OFFLINE=true
cd "$DIR/driver" && cargo build --offline 2>&1 | tail -2
cd "$DIR"
# fixture lock file: the fixture path-depends on crates the repository already uses
[ -f fixtures/forbidden/Cargo.lock ] || cp /repo/Cargo.lock fixtures/forbidden/Cargo.lock
python3 - <<'PY'
import sys, os
sys.path.insert(0, os.path.join(os.getcwd(), 'analysis'))
import extract
f, m = extract.extract('/repo')
print('warm: repo', m)
f, m = extract.extract(os.path.join(os.getcwd(), 'fixtures', 'forbidden'), crate='kfix_forbidden',
                       pkg_fingerprint='kfix-forbidden', target_name='target-fixture')
print('warm: fixture', m)
PY
